#!/venv/bin/python
"""rv/check.py <Cxx> [--tier quick|thorough] [--seed N] [--replay witness.json]

Exit 0 = held on everything observed; 1 = violation (VIOLATION line printed);
2 = inconclusive (a deciding monitor never fired, a shard died, deps missing).
"""

from __future__ import annotations

import argparse
import importlib
import json
import os
import subprocess
import sys
import time

HERE = os.path.dirname(os.path.abspath(__file__))
ROOT = os.path.dirname(HERE)


def _bootstrap() -> None:
    # deterministic hashing + never write bytecode into /repo
    if os.environ.get("PYTHONHASHSEED") != "0" or os.environ.get("PYTHONDONTWRITEBYTECODE") != "1":
        env = dict(os.environ, PYTHONHASHSEED="0", PYTHONDONTWRITEBYTECODE="1")
        os.execve(sys.executable, [sys.executable, *sys.argv], env)
    if ROOT not in sys.path:
        sys.path.insert(0, ROOT)
    src = os.environ.get("RV_REPO_SRC")
    if src:
        sys.path.insert(0, src)
    from rv.core import deps

    deps.ensure()
    import faulthandler

    faulthandler.enable()
    import warnings

    warnings.filterwarnings("ignore")


def _assert_tree() -> str:
    import soundevent

    path = os.path.dirname(os.path.abspath(soundevent.__file__))
    want = os.environ.get("RV_REPO_SRC") or "/repo/src"
    if not path.startswith(os.path.abspath(want)):
        print(f"INCONCLUSIVE reason=soundevent_imported_from:{path}")
        sys.exit(2)
    return path


def run_shard(prop: str, tier: str, seed: int, shard: int, nshards: int, replay=None):
    from rv.core import reach
    from rv.core.ctx import Ctx

    mod = importlib.import_module(f"rv.props.{prop.lower()}")
    ctx = Ctx(prop, tier, seed, shard, nshards)
    from rv.core import ctx as _c

    _c.CURRENT = ctx
    from rv.gen import geoms as _g

    _g.set_rng(__import__("random").Random(f"construct:{prop}:{seed}:{shard}"))
    _g.PATHS_USED.clear()
    reach.start()
    # wall-clock watchdog: a run that does not finish is INCONCLUSIVE, never "held" and never a hang (a change to the
    # library can make a legitimate call allocate without bound).  Generous, so that a loaded machine cannot trip it.
    import signal

    class _Watchdog(BaseException):
        pass

    def _alarm(signum, frame):
        raise _Watchdog()

    limit = int(os.environ.get("RV_WATCHDOG_S", "2400" if tier != "thorough" else "10800"))
    try:
        signal.signal(signal.SIGALRM, _alarm)
        signal.alarm(limit)
    except (ValueError, OSError):
        pass
    try:
        if replay is not None:
            ctx.replaying = True
            from rv.props import concurrent_jobs

            if isinstance(replay.get("spec"), dict) and replay["spec"].get("kind") == "concurrent" and prop in concurrent_jobs.JOBS:
                concurrent_jobs.replay(ctx, prop, replay)
            else:
                mod.replay(ctx, replay)
        else:
            mod.run(ctx)
    except _Watchdog:
        ctx.inconclusive_because(f"watchdog:{limit}s_wall_clock_exceeded_at_case:{ctx.current_cls}")
    except Exception as exc:  # harness crash: keep what was observed, never call it "held"
        import traceback

        traceback.print_exc()
        ctx.inconclusive_because(f"harness_error:{type(exc).__name__}:{str(exc)[:120]}")
    finally:
        try:
            signal.alarm(0)
        except (ValueError, OSError):
            pass
        counts = reach.stop()
    anchors = tuple(getattr(mod, "ANCHORS", ()))
    for k, v in counts.items():
        if not anchors or k.split("::")[0].startswith(anchors):
            ctx.reach[k] += v
    if _g.PATHS_USED:
        ctx.extra["geometry_construction_paths"] = dict(_g.PATHS_USED)
    return ctx


def main() -> int:
    ap = argparse.ArgumentParser()
    ap.add_argument("prop")
    ap.add_argument("--tier", default=os.environ.get("VERIF_TIER", "quick"))
    ap.add_argument("--seed", type=int, default=int(os.environ.get("VERIF_SEED", "0") or 0))
    ap.add_argument("--shard", default=None, help="k/N (internal)")
    ap.add_argument("--out", default=None, help="shard result file (internal)")
    ap.add_argument("--replay", default=None)
    ap.add_argument("--shards", type=int, default=None)
    args = ap.parse_args()
    _bootstrap()
    _assert_tree()
    from rv.core.ctx import Ctx
    from rv.core.finish import finish

    prop = args.prop.upper()
    if args.tier not in ("quick", "thorough"):
        args.tier = "quick"

    if args.replay:
        with open(args.replay) as fh:
            w = json.load(fh)
        ctx = run_shard(prop, w.get("tier", "quick"), w.get("seed", 0), 0, 1, replay=w)
        return finish(ctx, write_evidence=False)

    if args.shard:
        k, n = (int(x) for x in args.shard.split("/"))
        ctx = run_shard(prop, args.tier, args.seed, k, n)
        with open(args.out, "w") as fh:
            json.dump(ctx.dump(), fh, default=repr)
        return 0

    if args.tier == "quick":
        ctx = run_shard(prop, "quick", args.seed, 0, 1)
        return finish(ctx)

    # thorough: N worker subprocesses (never multiprocessing.Pool)
    mod = importlib.import_module(f"rv.props.{prop.lower()}")
    n = args.shards or getattr(mod, "THOROUGH_SHARDS", 12)
    budget = getattr(mod, "SHARD_TIMEOUT_S", 3600)
    work = os.path.join(ROOT, ".work", prop)
    os.makedirs(work, exist_ok=True)
    procs = []
    t0 = time.time()
    for k in range(n):
        out = os.path.join(work, f"shard-{args.seed}-{k}.json")
        if os.path.exists(out):
            os.remove(out)
        cmd = [sys.executable, os.path.abspath(__file__), prop, "--tier", "thorough",
               "--seed", str(args.seed), "--shard", f"{k}/{n}", "--out", out]
        log = open(os.path.join(work, f"shard-{args.seed}-{k}.log"), "w")
        procs.append((k, out, subprocess.Popen(cmd, stdout=log, stderr=subprocess.STDOUT, cwd=ROOT), log))
    master = Ctx(prop, "thorough", args.seed, 0, n)
    master.t0 = t0
    for k, out, p, log in procs:
        left = max(1.0, budget - (time.time() - t0))
        try:
            rc = p.wait(timeout=left)
        except subprocess.TimeoutExpired:
            p.kill()
            p.wait()
            rc = None
        log.close()
        if rc is None:
            master.inconclusive_because(f"shard_{k}_watchdog")
        elif rc != 0 or not os.path.exists(out):
            master.inconclusive_because(f"shard_{k}_died_rc{rc}")
            try:
                with open(log.name) as fh:
                    sys.stderr.write(fh.read()[-2000:])
            except Exception:
                pass
        else:
            with open(out) as fh:
                master.merge(json.load(fh))
            os.remove(out)
            os.remove(log.name)
    _ambient_stage(mod, prop, args.seed, master, work)
    return finish(master)


def _ambient_stage(mod, prop, seed, master, work):
    """Thorough tier: the repository's own tests that touch the anchored modules, under the ambient monitors."""
    tests = getattr(mod, "AMBIENT_TESTS", None)
    if not tests:
        return
    src = os.environ.get("RV_REPO_SRC") or "/repo/src"
    tree = os.path.dirname(os.path.abspath(src))
    paths = [t for t in tests if os.path.exists(os.path.join(tree, t))]
    if not paths:
        master.note("ambient_pytest_stage_skipped:no_tests_dir")
        return
    out = os.path.join(work, f"ambient-{seed}.json")
    if os.path.exists(out):
        os.remove(out)
    env = dict(os.environ, RV_AMBIENT_PROP=prop, RV_AMBIENT_OUT=out, VERIF_SEED=str(seed), PYTHONHASHSEED="0", PYTHONDONTWRITEBYTECODE="1",
               PYTHONPATH=os.pathsep.join([src, ROOT]))
    cmd = [sys.executable, "-m", "pytest", "-q", "-p", "no:cacheprovider", "-p", "rv.pytest_plugin", "--timeout=900", "-x", "--no-header", "-W", "ignore", *paths]
    cmd.remove("-x")
    try:
        subprocess.run(cmd, cwd=tree, env=env, capture_output=True, text=True, timeout=1200)
    except subprocess.TimeoutExpired:
        master.inconclusive_because("ambient_pytest_watchdog")
        return
    if not os.path.exists(out):
        master.note("ambient_pytest_stage_produced_no_dump")
        return
    with open(out) as fh:
        d = json.load(fh)
    d["evaluations"] = 0
    d["digests"] = []
    d["samples"] = []
    d["classes"] = {}
    d["must_reach"], d["must_monitors"] = [], []
    master.merge(d)
    os.remove(out)


if __name__ == "__main__":
    try:
        rc = main()
    except SystemExit:
        raise
    except BaseException as exc:  # a crash of the harness itself is never a verdict
        import traceback

        traceback.print_exc()
        print(f"INCONCLUSIVE reason=harness_error:{type(exc).__name__}")
        rc = 2
    sys.exit(rc)
