"""Every numeric band used by an oracle, with its reason (DESIGN.md §3.1)."""

# Decision boundaries on arbitrary (non-dyadic) doubles: if the exact rational
# quantity is within this relative distance of the boundary the case is a
# "don't care" (the code may legitimately round either way).
ULP_BAND_REL = 1e-12

# Derived real values (areas, IoU, means).
REAL_TOL = 1e-9

# float32 is part of the API of prediction_encoding.
F32_TOL = 1e-6

# Shapely's round caps are 32-gons (quad_segs=8): 1 - cos(pi/32) = 0.4815 %.
ROUND_CAP_SHORTFALL = 0.005

# GEOS simplifies the input of a buffer operation with a tolerance of 1 % of the buffer
# distance (BufferInputLineSimplifier, simplify factor 0.01); for geometries that are small
# compared with the buffer this adds up to 1 % to the polygonal-cap shortfall.
GEOS_BUFFER_SIMPLIFY = 0.011

# Time-shift invariance of affinity (GEOS buffers are not translation exact).
SHIFT_TOL = 1e-7

# crop_dim / extend_dim documented open-end epsilon.
OPEN_END_EPS = 1e-5

# numpy arange derives its increment from (start+step)-start: tolerate 1 % of a step.
RANGE_STEP_TOL = 0.01
