"""Reach probe: which soundevent functions did the workload actually enter?

Uses sys.monitoring (PY_START only). Code objects outside the repository's
source tree are DISABLEd on first sight so the overhead is ~0.
"""

from __future__ import annotations

import os
import sys
from collections import Counter

_TOOL = 3  # sys.monitoring.PROFILER_ID-ish free slot
_counts: Counter = Counter()
_root = None
_active = False


def _on_start(code, offset):
    fn = code.co_filename
    if _root is None or not fn.startswith(_root):
        return sys.monitoring.DISABLE
    _counts[f"{fn[len(_root) + 1:]}::{code.co_qualname}"] += 1
    return None


def start() -> None:
    global _root, _active
    if _active:
        return
    import soundevent

    _root = os.path.dirname(os.path.abspath(soundevent.__file__))
    mon = sys.monitoring
    try:
        mon.use_tool_id(_TOOL, "rv-reach")
    except ValueError:
        return
    mon.register_callback(_TOOL, mon.events.PY_START, _on_start)
    mon.set_events(_TOOL, mon.events.PY_START)
    _active = True


def stop() -> Counter:
    global _active
    if _active:
        mon = sys.monitoring
        mon.set_events(_TOOL, 0)
        mon.register_callback(_TOOL, mon.events.PY_START, None)
        mon.free_tool_id(_TOOL)
        _active = False
    return Counter(_counts)


def counts() -> Counter:
    return Counter(_counts)
