"""Calling conventions: the same call, made the other ways a caller may legitimately make it.

The public functions have a documented parameter ORDER (recorded below from the pinned tree) and boolean / numeric
options that callers fill with whatever their own code produced: ``numpy.bool_`` from a comparison, ``1`` for
``True``, ``numpy.float64`` or an ``int`` for a float.  A call made positionally in the documented order, or with such
values, means exactly the same as the keyword call with builtin values; the workloads make both and compare
(relational oracle: no reference model involved, so it cannot disagree with code for which the two calls agree).
"""

from __future__ import annotations

# name -> ((parameter, default) ...) in the documented order; REQUIRED marks parameters without default
REQUIRED = object()
PINNED = {
    "intervals_overlap": (("interval1", REQUIRED), ("interval2", REQUIRED), ("min_absolute_overlap", None), ("min_relative_overlap", None)),
    "have_temporal_overlap": (("geom1", REQUIRED), ("geom2", REQUIRED), ("min_absolute_overlap", None), ("min_relative_overlap", None)),
    "have_frequency_overlap": (("geom1", REQUIRED), ("geom2", REQUIRED), ("min_absolute_overlap", None), ("min_relative_overlap", None)),
    "is_in_clip": (("geometry", REQUIRED), ("clip", REQUIRED), ("minimum_overlap", 0.0)),
    "buffer_geometry": (("geometry", REQUIRED), ("time_buffer", 0), ("freq_buffer", 0)),
    "get_geometry_point": (("geometry", REQUIRED), ("position", "bottom-left")),
    "compute_affinity": (("geometry1", REQUIRED), ("geometry2", REQUIRED), ("time_buffer", 0.01), ("freq_buffer", 100)),
    "match_geometries": (("source", REQUIRED), ("target", REQUIRED), ("time_buffer", 0.01), ("freq_buffer", 100)),
    "crop_dim": (("arr", REQUIRED), ("dim", REQUIRED), ("start", None), ("stop", None), ("right_closed", False), ("left_closed", True), ("eps", 1e-5)),
    "extend_dim": (("arr", REQUIRED), ("dim", REQUIRED), ("start", None), ("stop", None), ("fill_value", 0), ("eps", 1e-5), ("left_closed", True), ("right_closed", False)),
    "adjust_dim_width": (("array", REQUIRED), ("dim", REQUIRED), ("width", REQUIRED), ("fill_value", 0), ("position", "start")),
    "crop_dim_width": (("array", REQUIRED), ("dim", REQUIRED), ("width", REQUIRED), ("position", "start")),
    "extend_dim_width": (("array", REQUIRED), ("dim", REQUIRED), ("width", REQUIRED), ("fill_value", 0), ("position", "start")),
    "create_range_dim": (("name", REQUIRED), ("start", REQUIRED), ("stop", REQUIRED), ("step", None), ("size", None)),
    "create_time_range": (("start_time", REQUIRED), ("end_time", REQUIRED), ("step", None), ("samplerate", None)),
    "create_frequency_range": (("low_freq", REQUIRED), ("high_freq", REQUIRED), ("step", REQUIRED)),
    "get_coord_index": (("arr", REQUIRED), ("dim", REQUIRED), ("value", REQUIRED), ("raise_error", True)),
    "segment_clip": (("clip", REQUIRED), ("duration", REQUIRED), ("hop", None), ("include_incomplete", False)),
    "rasterize": (("geometries", REQUIRED), ("array", REQUIRED), ("values", 1), ("fill", 0)),
    "load_clip": (("clip", REQUIRED), ("audio_dir", None)),
    "load_recording": (("recording", REQUIRED), ("audio_dir", None)),
    "compute_spectrogram": (("audio", REQUIRED), ("window_size", REQUIRED), ("hop_size", REQUIRED), ("window_type", "hann")),
    "resample": (("array", REQUIRED), ("target_samplerate", REQUIRED)),
    "label_from_tag": (("tag", REQUIRED), ("label_fn", None), ("label_mapping", None), ("value_only", False), ("separator", ":")),
    "label_from_tags": (("tags", REQUIRED), ("seq_label_fn", None), ("select_by_key", None), ("index", None), ("separator", ","), ("empty_label", "__empty__")),
    "segment_to_annotation": (("segment", REQUIRED), ("recording", REQUIRED), ("adjust_time_expansion", True)),
    "bbox_to_annotation": (("bbox", REQUIRED), ("recording", REQUIRED), ("adjust_time_expansion", True)),
    "segment_from_annotation": (("obj", REQUIRED), ("cast_to_segment", True)),
    "bbox_from_annotation": (("obj", REQUIRED), ("cast_to_bbox", True), ("raise_on_time_geometries", True)),
    "save": (("obj", REQUIRED), ("path", REQUIRED), ("audio_dir", None)),
    "load": (("path", REQUIRED), ("audio_dir", None)),
    "classification_encoding": (("tags", REQUIRED), ("encoder", REQUIRED)),
    "multilabel_encoding": (("tags", REQUIRED), ("encoder", REQUIRED)),
    "prediction_encoding": (("tags", REQUIRED), ("encoder", REQUIRED)),
}


def positional(name: str, kwargs: dict):
    """(args, rest): ``kwargs`` as positional arguments in the documented order (gaps filled with the documented
    defaults, trailing defaults dropped); parameters not in the table stay keyword arguments."""
    order = PINNED[name]
    args, last = [], -1
    for i, (p, d) in enumerate(order):
        if p in kwargs:
            last = i
    for i, (p, d) in enumerate(order[: last + 1]):
        if p in kwargs:
            args.append(kwargs[p])
        elif d is REQUIRED:
            raise TypeError(f"{name}: required parameter {p} missing")
        else:
            args.append(d)
    rest = {k: v for k, v in kwargs.items() if k not in {p for p, _ in order}}
    return args, rest


def boolish(rng, b):
    """A truth value the way calling code may hold it: builtin bool, numpy.bool_ (result of a comparison), 0/1."""
    import numpy as np

    return rng.choice([bool(b), bool(b), np.bool_(b), int(bool(b))])


def numlike(rng, x):
    """A number the way calling code may hold it: float, numpy.float64, or an int when it is whole."""
    import numpy as np

    if x is None or isinstance(x, bool) or not isinstance(x, (int, float)) or (isinstance(x, int) and abs(x) >= 2 ** 53):
        return x            # exact types (big ints, Fractions, ...) are left alone: a float copy is another number
    opts = [x, np.float64(x)]
    if float(x) == int(x) and abs(x) < 2 ** 53:
        opts.append(int(x))
    return rng.choice(opts)


def outcome(fn, *a, **k):
    try:
        return "ok", fn(*a, **k)
    except Exception as e:  # compared by type
        return type(e).__name__, None


def agree(ctx, name, fn, kwargs, spec, same=None, variants=None):
    """Call ``fn(**kwargs)``; then the same call positionally in the documented order (and, if given, with each of
    ``variants`` -- dicts of replaced option values that mean the same) and record a violation when outcomes differ.
    Returns the keyword call's (status, value)."""
    st, v = outcome(fn, **kwargs)
    same = same or (lambda a, b: a == b or repr(a) == repr(b))      # (repr: NaN-valued results are the same result)
    calls = []
    try:
        args, rest = positional(name, kwargs)
        calls.append(("positional_in_documented_order", lambda: outcome(fn, *args, **rest)))
    except TypeError:
        pass
    for label, repl in (variants or {}).items():
        kw2 = dict(kwargs, **repl)
        calls.append((label, lambda kw2=kw2: outcome(fn, **kw2)))
    for label, call in calls:
        st2, v2 = call()
        ctx.mon("calling_conventions")
        ok = st2 == st
        if ok and st == "ok":
            try:
                ok = bool(same(v, v2))
            except Exception:
                ok = False
        if not ok:
            ctx.violate("calling_convention", f"calling_convention:{name}:{label}", observed=[st2, repr(v2)[:160]], expected=[st, repr(v)[:160]], spec=spec)
    return st, v
