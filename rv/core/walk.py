"""Generic walkers over pydantic object graphs: reachable set, field-wise diff."""

from __future__ import annotations

import math
from typing import Any, Iterator

from pydantic import BaseModel


def walk(obj: Any, path: str = "$", _seen=None) -> Iterator[tuple[str, BaseModel]]:
    """Yield (path, instance) for every pydantic model instance reachable from obj."""
    if _seen is None:
        _seen = set()
    if isinstance(obj, BaseModel):
        if id(obj) in _seen:
            return
        _seen.add(id(obj))
        yield path, obj
        for name in type(obj).model_fields:
            yield from walk(getattr(obj, name, None), f"{path}.{name}", _seen)
    elif isinstance(obj, (list, tuple)):
        for i, v in enumerate(obj):
            yield from walk(v, f"{path}[{i}]", _seen)
    elif isinstance(obj, dict):
        for k, v in obj.items():
            yield from walk(v, f"{path}[{k!r}]", _seen)


def diff(a: Any, b: Any, path: str = "$", term_by_label: bool = True, _depth: int = 0):
    """First difference between two values, as (path, a_repr, b_repr), or None.

    Walks *every declared field* of every nested model. Terms compare equal when their
    labels are equal (the one reduction C01 permits).
    """
    if _depth > 60:
        return None
    if isinstance(a, BaseModel) or isinstance(b, BaseModel):
        if type(a) is not type(b):
            return (path, f"type {type(a).__name__}", f"type {type(b).__name__}")
        if term_by_label and type(a).__name__ == "Term":
            if a.label != b.label:
                return (path + ".label", repr(a.label), repr(b.label))
            return None
        for name in type(a).model_fields:
            d = diff(getattr(a, name), getattr(b, name), f"{path}.{name}", term_by_label, _depth + 1)
            if d:
                return d
        return None
    if isinstance(a, (list, tuple)) and isinstance(b, (list, tuple)):
        if len(a) != len(b):
            return (path, f"len {len(a)}", f"len {len(b)}")
        for i, (x, y) in enumerate(zip(a, b)):
            d = diff(x, y, f"{path}[{i}]", term_by_label, _depth + 1)
            if d:
                return d
        return None
    if isinstance(a, float) and isinstance(b, float) and math.isnan(a) and math.isnan(b):
        return None
    if isinstance(a, (int, float)) and isinstance(b, (int, float)) and not isinstance(a, bool) and not isinstance(b, bool):
        return None if a == b else (path, repr(a), repr(b))
    if type(a) is not type(b) and not (a is None or b is None):
        # Path vs PosixPath etc. compare by ==
        return None if a == b else (path, repr(a)[:120], repr(b)[:120])
    return None if a == b else (path, repr(a)[:120], repr(b)[:120])
