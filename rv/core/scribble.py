"""A hostile but legitimate caller: edit, in place, a value an API call has *returned*.

A returned list, geometry, array or coordinate variable belongs to the caller.  If a later call's
result depends on what the caller did to an earlier result, the library is sharing mutable state
between calls (memoised results, module-level scratch buffers, views of cached data, a default
return object).  The workloads therefore: call, scribble on the result, call again with fresh,
equal inputs, and judge the second result with the property's ordinary oracle.  Nothing here is an
oracle; the function returns the number of edits made so that a monitor can tell that it acted.
"""

from __future__ import annotations

SENTINEL = "<scribbled>"


def scribble(x, depth: int = 0) -> int:
    if depth > 8:
        return 0
    try:
        import numpy as np
        import xarray as xr
    except Exception:  # pragma: no cover
        np = xr = None
    from pydantic import BaseModel

    n = 0
    if xr is not None and isinstance(x, xr.DataArray):
        n += scribble(x.variable, depth + 1)
        for c in x.coords.values():
            n += scribble(c.variable, depth + 1)
        return n
    if xr is not None and isinstance(x, xr.Variable):
        try:
            n += scribble(x.values, depth + 1)
        except Exception:
            pass
        for k in list(x.attrs):
            v = x.attrs[k]
            if isinstance(v, (int, float)) and not isinstance(v, bool):
                x.attrs[k] = -7.25
                n += 1
        return n
    if np is not None and isinstance(x, np.ndarray):
        if not x.flags.writeable or x.size == 0:
            return 0
        if x.dtype.kind == "b":
            x[...] = ~x
        elif x.dtype.kind in "iuf":
            x[...] = x[::-1].copy() if x.ndim == 1 and x.size > 1 and len(set(x.tolist())) > 1 else 0
            x.flat[0] = 77
        else:
            return 0
        return 1
    if isinstance(x, list):
        if not x:
            x.append(SENTINEL)
            return 1
        if all(isinstance(v, (int, float)) and not isinstance(v, bool) for v in x):
            for i, v in enumerate(x):
                x[i] = v * 0.5 + 3.25
            return 1
        for v in x:
            n += scribble(v, depth + 1)
        if len(x) > 1 and not isinstance(x[0], (list, tuple)):
            x.reverse()
            n += 1
        if not isinstance(x[0], (list, tuple, int, float)):
            del x[0]
            n += 1
        return n
    if isinstance(x, tuple):
        for v in x:
            n += scribble(v, depth + 1)
        return n
    if isinstance(x, dict):
        for v in x.values():
            n += scribble(v, depth + 1)
        x[SENTINEL] = SENTINEL
        return n + 1
    if isinstance(x, BaseModel):
        for name in type(x).model_fields:
            v = getattr(x, name, None)
            if isinstance(v, (list, dict)) or (np is not None and isinstance(v, np.ndarray)):
                n += scribble(v, depth + 1)
        return n
    return 0
