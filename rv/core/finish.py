"""Verdict, known-findings filter, witness files and the evidence file."""

from __future__ import annotations

import json
import os
import sys
import time

from .ctx import ROOT, Ctx

KNOWN = os.path.join(ROOT, "known_findings.json")
SCHEMA = os.path.join(os.path.dirname(os.path.abspath(__file__)), "EVIDENCE.schema.json")


def load_known() -> list[dict]:
    try:
        with open(KNOWN) as fh:
            return json.load(fh)["findings"]
    except FileNotFoundError:
        return []


def finish(ctx: Ctx, write_evidence: bool = True) -> int:
    """Decide the verdict, print the interface lines, write evidence. Returns exit code."""
    known = load_known()
    open_keys = {
        f["key"]: f for f in known if f.get("status") == "open" and f.get("property") == ctx.prop
    }

    # -- inconclusive conditions derived from counters
    for m in ctx.must_monitors:
        if ctx.monitors.get(m, 0) == 0:
            ctx.inconclusive_because(f"monitor_never_evaluated:{m}")
    for fn in ctx.must_reach:
        soft = fn.startswith("?")      # "?" marks an internal helper: reported, not required
        fn = fn.lstrip("?")
        if ctx.reach.get(fn, 0) == 0:
            # only the PUBLIC entry points are required: a private helper / validator method may be renamed, inlined
            # or replaced by a harmless refactoring, which must not make the check fail (seeded change C13-g
            # replaced _compute_similarity_matrix); an unreached private name is reported in the evidence only
            last = fn.split("::")[-1].split(".")[-1]
            if soft or last.startswith("_"):
                ctx.note(f"private_function_not_reached:{fn}")
            else:
                ctx.inconclusive_because(f"function_not_reached:{fn}")
    if ctx.evaluations == 0:
        ctx.inconclusive_because("no_cases")

    wdir = os.path.join(os.environ.get("RV_WITNESS_DIR") or os.path.join(ROOT, "witness"), ctx.prop)
    new_by_key: dict[str, dict] = {}
    known_hit: dict[str, dict] = {}
    for v in ctx.violations:
        if v["key"] in open_keys:
            known_hit.setdefault(v["key"], v)
        else:
            new_by_key.setdefault(v["key"], v)

    lines = []
    n_new = 0
    for k, (key, v) in enumerate(sorted(new_by_key.items())):
        os.makedirs(wdir, exist_ok=True)
        path = os.path.join(wdir, f"{ctx.tier}-{ctx.seed}-{k}.json")
        with open(path, "w") as fh:
            json.dump(v, fh, indent=1, default=repr)
        lines.append(f"VIOLATION property={ctx.prop} replay={path}")
        lines.append(
            f"  key={key} sub={v['sub']} count={ctx._viol_count.get(key, 1)} "
            f"observed={json.dumps(v['observed'], default=repr)[:300]} "
            f"expected={json.dumps(v['expected'], default=repr)[:300]}"
        )
        n_new += 1
    for key, v in sorted(known_hit.items()):
        f = open_keys[key]
        lines.append(
            f"KNOWN-FINDING: property={ctx.prop} key={key} {f.get('what', '')} "
            f"(reproduced {ctx._viol_count.get(key, 1)}x this run)"
        )

    if n_new:
        verdict, code = "violated", 1
    elif ctx.inconclusive:
        verdict, code = "inconclusive", 2
        for r in ctx.inconclusive:
            lines.append(f"INCONCLUSIVE property={ctx.prop} reason={r}")
    else:
        verdict, code = "held", 0

    wall = time.time() - ctx.t0
    if os.environ.get("RV_NO_EVIDENCE"):
        write_evidence = False
    if write_evidence:
        ev = {
            "property_id": ctx.prop,
            "tier": ctx.tier,
            "seed": int(ctx.seed),
            "level": "exploration",
            "coverage": {
                "evaluations": int(ctx.evaluations),
                "distinct_nontrivial": len(ctx.digests),
                "rule": ctx.rule,
                "samples": ctx.samples[:10] or [],
                "monitor_evaluations": dict(sorted(ctx.monitors.items())),
                "class_histogram": _trim(dict(sorted(ctx.classes.items()))),
                "classes_seen": len(ctx.classes),
                "reach": dict(sorted(ctx.reach.items())),
                "out_of_domain": dict(ctx.out_of_domain),
                "dont_care": dict(ctx.dont_care),
                "notes": dict(ctx.notes),
                "known_findings_reproduced": {
                    k: ctx._viol_count.get(k, 1) for k in sorted(known_hit)
                },
                "new_violation_keys": sorted(new_by_key),
                "exhaustive_subspaces": ctx.exhaustive_subspaces,
                "exhaustive": False,
                "verdict": verdict,
                "inconclusive_reasons": ctx.inconclusive,
                "shards": ctx.nshards,
                **({"extra": ctx.extra} if ctx.extra else {}),
            },
            "assumptions": ctx.assumptions,
            "wall_s": round(wall, 3),
            "violations": n_new,
        }
        _validate(ev)
        os.makedirs(os.path.join(ROOT, "evidence"), exist_ok=True)
        with open(os.path.join(ROOT, "evidence", f"{ctx.prop}.json"), "w") as fh:
            json.dump(ev, fh, indent=1, default=repr)
            fh.write("\n")

    print(
        f"[{ctx.prop}] tier={ctx.tier} seed={ctx.seed} verdict={verdict} "
        f"cases={ctx.evaluations} distinct_nontrivial={len(ctx.digests)} "
        f"classes={len(ctx.classes)} monitor_evals={sum(ctx.monitors.values())} "
        f"dont_care={sum(ctx.dont_care.values())} ood={sum(ctx.out_of_domain.values())} "
        f"wall={wall:.1f}s"
    )
    for ln in lines:
        print(ln)
    sys.stdout.flush()
    return code


def _trim(h: dict, n: int = 400) -> dict:
    if len(h) <= n:
        return h
    items = sorted(h.items(), key=lambda kv: -kv[1])
    out = dict(items[:n])
    out["__other_classes__"] = sum(v for _, v in items[n:])
    return out


def _validate(ev: dict) -> None:
    try:
        import jsonschema

        with open(SCHEMA) as fh:
            schema = json.load(fh)
        jsonschema.validate(ev, schema)
    except ImportError:
        pass
    except Exception as exc:  # schema failure must be loud but not hide the verdict
        sys.stderr.write(f"evidence schema validation failed: {exc}\n")
