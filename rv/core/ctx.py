"""Run context: counters, case registry, violations, three-valued verdict.

A property module receives one ``Ctx`` and reports everything it observes
through it.  The context is what gets serialised by a shard and merged by the
parent, and what the evidence file is written from.
"""

from __future__ import annotations

import hashlib
import json
import math
import os
import random
import time
import traceback
from collections import Counter
from typing import Any, Optional

ROOT = os.path.dirname(os.path.dirname(os.path.dirname(os.path.abspath(__file__))))

MAX_SAMPLES = 10
CURRENT = None  # the Ctx ambient monitors report to
MAX_WITNESS_PER_KEY = 3


def jsonable(x: Any, depth: int = 0) -> Any:
    """Best-effort conversion of an observation to a JSON value."""
    if depth > 12:
        return repr(x)[:200]
    if x is None or isinstance(x, (bool, int, str)):
        return x
    if isinstance(x, float):
        if math.isnan(x) or math.isinf(x):
            return repr(x)
        return x
    if isinstance(x, (list, tuple)):
        return [jsonable(v, depth + 1) for v in x]
    if isinstance(x, (set, frozenset)):
        return sorted((jsonable(v, depth + 1) for v in x), key=repr)
    if isinstance(x, dict):
        return {str(k): jsonable(v, depth + 1) for k, v in x.items()}
    try:
        import numpy as np

        if isinstance(x, np.generic):
            return jsonable(x.item(), depth + 1)
        if isinstance(x, np.ndarray):
            if x.size > 64:
                return {"ndarray": list(x.shape), "head": jsonable(x.ravel()[:16].tolist(), depth + 1)}
            return jsonable(x.tolist(), depth + 1)
    except Exception:
        pass
    md = getattr(x, "model_dump", None)
    if callable(md):
        try:
            return jsonable(md(mode="json"), depth + 1)
        except Exception:
            pass
    return repr(x)[:300]


def digest(spec: Any) -> str:
    return hashlib.blake2b(
        json.dumps(jsonable(spec), sort_keys=True, default=repr).encode(), digest_size=8
    ).hexdigest()


class Ctx:
    def __init__(self, prop: str, tier: str, seed: int, shard: int = 0, nshards: int = 1):
        self.prop = prop
        self.tier = tier
        self.seed = seed
        self.shard = shard
        self.nshards = nshards
        self.rng = random.Random(f"{prop}:{seed}:{shard}")
        self.t0 = time.time()
        self.evaluations = 0
        self.digests: set[str] = set()
        self.classes: Counter = Counter()
        self.monitors: Counter = Counter()
        self.dont_care: Counter = Counter()
        self.out_of_domain: Counter = Counter()
        self.notes: Counter = Counter()
        self.samples: list = []
        self._sample_classes: set = set()
        self.violations: list[dict] = []
        self._viol_count: Counter = Counter()
        self.inconclusive: list[str] = []
        self.exhaustive_subspaces: list[str] = []
        self.reach: Counter = Counter()
        self.must_reach: list[str] = []
        self.must_monitors: list[str] = []
        self.rule = ""
        self.assumptions: list[str] = []
        self.extra: dict = {}
        self.current_spec: Any = None
        self.current_cls: Any = None

    # ------------------------------------------------------------------ cases
    @property
    def thorough(self) -> bool:
        return self.tier == "thorough"

    def scale(self, quick: int, thorough: int) -> int:
        """Per-shard case budget (thorough budgets are multiplied by RV_THOROUGH_DEPTH, default 4)."""
        if not self.thorough:
            return quick
        try:
            depth = max(1, int(os.environ.get("RV_THOROUGH_DEPTH", "4")))
        except ValueError:
            depth = 4
        return thorough * depth

    def every(self, spec: Any, k: int) -> bool:
        """Deterministic 1-in-k selection keyed by the case itself (always true under --replay)."""
        return getattr(self, "replaying", False) or int(digest(spec), 16) % k == 0

    def case(self, cls: Any, spec: Any, nontrivial: bool = True) -> None:
        self.evaluations += 1
        cls_s = cls if isinstance(cls, str) else "|".join(str(c) for c in cls)
        self.classes[cls_s] += 1
        self.current_spec = spec
        self.current_cls = cls_s
        if nontrivial:
            self.digests.add(digest(spec))
        if cls_s not in self._sample_classes and len(self.samples) < MAX_SAMPLES:
            self._sample_classes.add(cls_s)
            self.samples.append({"class": cls_s, "spec": jsonable(spec)})

    def mon(self, name: str, n: int = 1) -> None:
        self.monitors[name] += n

    def dc(self, why: str) -> None:
        self.dont_care[why] += 1

    def ood(self, why: str) -> None:
        self.out_of_domain[why] += 1

    def note(self, what: str, n: int = 1) -> None:
        self.notes[what] += n

    # ------------------------------------------------------------- violations
    def violate(
        self,
        sub: str,
        key: str,
        observed: Any = None,
        expected: Any = None,
        spec: Any = None,
        tb: Optional[str] = None,
        monitor: Optional[str] = None,
    ) -> None:
        """Record a violation of sub-check ``sub`` with mechanism key ``key``."""
        full_key = f"{self.prop}:{key}"
        self._viol_count[full_key] += 1
        if self._viol_count[full_key] > MAX_WITNESS_PER_KEY:
            return
        self.violations.append(
            {
                "property": self.prop,
                "sub": sub,
                "key": full_key,
                "monitor": monitor or sub,
                "class": self.current_cls,
                "spec": jsonable(spec if spec is not None else self.current_spec),
                "observed": jsonable(observed),
                "expected": jsonable(expected),
                "traceback": tb,
                "tier": self.tier,
                "seed": self.seed,
                "shard": self.shard,
            }
        )

    def violate_exc(self, sub: str, key: str, exc: BaseException, **kw) -> None:
        tb = "".join(traceback.format_exception(type(exc), exc, exc.__traceback__))[-3000:]
        self.violate(sub, key, observed=f"{type(exc).__name__}: {exc}"[:500], tb=tb, **kw)

    def inconclusive_because(self, reason: str) -> None:
        if reason not in self.inconclusive:
            self.inconclusive.append(reason)

    # ---------------------------------------------------------------- (de)ser
    def dump(self) -> dict:
        return {
            "prop": self.prop, "tier": self.tier, "seed": self.seed, "shard": self.shard,
            "evaluations": self.evaluations, "digests": sorted(self.digests),
            "classes": dict(self.classes), "monitors": dict(self.monitors),
            "dont_care": dict(self.dont_care), "out_of_domain": dict(self.out_of_domain),
            "notes": dict(self.notes), "samples": self.samples,
            "violations": self.violations, "viol_count": dict(self._viol_count),
            "inconclusive": self.inconclusive,
            "exhaustive_subspaces": self.exhaustive_subspaces,
            "reach": dict(self.reach), "must_reach": self.must_reach,
            "must_monitors": self.must_monitors, "rule": self.rule,
            "assumptions": self.assumptions, "extra": jsonable(self.extra),
            "wall_s": time.time() - self.t0,
        }

    def merge(self, d: dict) -> None:
        self.evaluations += d["evaluations"]
        self.digests.update(d["digests"])
        for name in ("classes", "monitors", "dont_care", "out_of_domain", "notes", "reach"):
            getattr(self, name).update(Counter(d[name]))
        for s in d["samples"]:
            if len(self.samples) < MAX_SAMPLES and s["class"] not in self._sample_classes:
                self._sample_classes.add(s["class"])
                self.samples.append(s)
        self.violations.extend(d["violations"])
        self._viol_count.update(Counter(d["viol_count"]))
        for r in d["inconclusive"]:
            self.inconclusive_because(r)
        for e in d["exhaustive_subspaces"]:
            if e not in self.exhaustive_subspaces:
                self.exhaustive_subspaces.append(e)
        for m in d["must_reach"]:
            if m not in self.must_reach:
                self.must_reach.append(m)
        for m in d["must_monitors"]:
            if m not in self.must_monitors:
                self.must_monitors.append(m)
        self.rule = self.rule or d["rule"]
        for a in d["assumptions"]:
            if a not in self.assumptions:
                self.assumptions.append(a)
        for k, v in d.get("extra", {}).items():
            if isinstance(v, (int, float)) and isinstance(self.extra.get(k, 0), (int, float)):
                self.extra[k] = self.extra.get(k, 0) + v
            elif isinstance(v, dict) and isinstance(self.extra.get(k, {}), dict):
                cur = self.extra.setdefault(k, {})
                for kk, vv in v.items():
                    if isinstance(vv, (int, float)) and isinstance(cur.get(kk, 0), (int, float)):
                        cur[kk] = cur.get(kk, 0) + vv
                    else:
                        cur.setdefault(kk, vv)
            else:
                self.extra.setdefault(k, v)
