"""Deep, comparable snapshots of API inputs (to observe mutation of an input by the code under test)."""

from __future__ import annotations

import hashlib
from typing import Any


def _h(arr) -> str:
    import numpy as np

    a = np.ascontiguousarray(arr)
    return hashlib.blake2b(a.tobytes(), digest_size=8).hexdigest() + f":{a.dtype}:{a.shape}"


def snap(x: Any, depth: int = 0) -> Any:
    if depth > 30:
        return repr(x)[:80]
    try:
        import numpy as np
        import xarray as xr
    except Exception:  # pragma: no cover
        np = xr = None
    from pydantic import BaseModel

    if xr is not None and isinstance(x, xr.DataArray):
        return {
            "__da__": _h(x.data), "dims": list(x.dims), "attrs": snap(dict(x.attrs), depth + 1), "name": x.name,
            "coords": {str(k): {"v": _h(v.data) if v.dtype.kind in "fiub" else repr(list(v.data))[:200], "attrs": snap(dict(v.attrs), depth + 1), "dims": list(v.dims)}
                       for k, v in x.coords.items()},
        }
    if xr is not None and isinstance(x, xr.Variable):
        return {"__var__": _h(x.data), "dims": list(x.dims), "attrs": snap(dict(x.attrs), depth + 1)}
    if np is not None and isinstance(x, np.ndarray):
        return {"__nd__": _h(x)}
    if isinstance(x, BaseModel):
        d = {name: snap(getattr(x, name), depth + 1) for name in type(x).model_fields}
        extra = getattr(x, "model_extra", None)
        if extra:
            d["__extra__"] = snap(dict(extra), depth + 1)
        d["__cls__"] = type(x).__name__
        return d
    if isinstance(x, dict):
        return {str(k): snap(v, depth + 1) for k, v in x.items()}
    if isinstance(x, (list, tuple)):
        return [snap(v, depth + 1) for v in x]
    if isinstance(x, float) and x != x:
        return "nan"
    if isinstance(x, (int, float, str, bool)) or x is None:
        return x
    if np is not None and isinstance(x, np.generic):
        return x.item()
    return repr(x)[:200]


def first_diff(a: Any, b: Any, path: str = "$"):
    if type(a) is not type(b):
        return path
    if isinstance(a, dict):
        if set(a) != set(b):
            return f"{path}:keys:{sorted(set(a) ^ set(b))[:3]}"
        for k in a:
            d = first_diff(a[k], b[k], f"{path}.{k}")
            if d:
                return d
        return None
    if isinstance(a, list):
        if len(a) != len(b):
            return f"{path}:len"
        for i, (x, y) in enumerate(zip(a, b)):
            d = first_diff(x, y, f"{path}[{i}]")
            if d:
                return d
        return None
    return None if a == b else path


def check_unchanged(ctx, name: str, before: Any, obj: Any, spec: Any) -> None:
    """Record a violation if ``obj`` no longer matches its snapshot ``before``."""
    ctx.mon("inputs_unchanged")
    d = first_diff(before, snap(obj))
    if d:
        ctx.violate("input_mutated", f"input_mutated:{name}:{d.split('[')[0][:60]}", observed={"changed_at": d}, expected="API call leaves its inputs unchanged", spec=spec)
