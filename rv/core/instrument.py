"""Attach monitors to the real functions, including every alias.

``from m import f`` binds a reference that a later ``m.f = wrapped`` does not
touch, and registries (dict/list/tuple at module level) hold more.  ``attach``
therefore imports every ``soundevent.*`` module and replaces every module
attribute, and every value one level inside a module-level dict / list / tuple,
that *is* the original.
"""

from __future__ import annotations

import functools
import importlib
import pkgutil
import sys
import types
from typing import Callable

_ATTACHED: list[tuple[object, str, object, object]] = []
_IMPORTED = False


def import_all() -> list[types.ModuleType]:
    global _IMPORTED
    import soundevent

    if not _IMPORTED:
        for m in pkgutil.walk_packages(soundevent.__path__, "soundevent."):
            if ".plot" in m.name:
                continue
            try:
                importlib.import_module(m.name)
            except Exception:
                pass
        _IMPORTED = True
    return [
        mod for name, mod in list(sys.modules.items())
        if (name == "soundevent" or name.startswith("soundevent.")) and mod is not None
    ]


def rebind(orig: object, new: object) -> int:
    """Replace every alias of ``orig`` in soundevent.* by ``new``. Returns count."""
    n = 0
    for mod in import_all():
        for attr, val in list(vars(mod).items()):
            if val is orig:
                setattr(mod, attr, new)
                _ATTACHED.append((mod, attr, orig, new))
                n += 1
            elif isinstance(val, dict) and not attr.startswith("__"):
                for k, v in list(val.items()):
                    if v is orig:
                        val[k] = new
                        n += 1
            elif isinstance(val, list):
                for i, v in enumerate(val):
                    if v is orig:
                        val[i] = new
                        n += 1
                    elif isinstance(v, tuple) and any(x is orig for x in v):
                        val[i] = tuple(new if x is orig else x for x in v)
                        n += 1
            elif isinstance(val, tuple) and not attr.startswith("__"):
                changed = False
                items = []
                for v in val:
                    if v is orig:
                        items.append(new)
                        changed = True
                    elif isinstance(v, tuple) and any(x is orig for x in v):
                        items.append(tuple(new if x is orig else x for x in v))
                        changed = True
                    else:
                        items.append(v)
                if changed:
                    try:
                        setattr(mod, attr, tuple(items))
                        n += 1
                    except Exception:
                        pass
    return n


def attach(modname: str, fname: str, make_wrapper: Callable[[Callable], Callable]) -> Callable:
    """Wrap ``modname.fname`` with ``make_wrapper(orig)`` and rebind all aliases.

    Returns the *original* function (for oracles that must bypass monitors).
    Idempotent per (module, function).
    """
    mod = importlib.import_module(modname)
    cur = getattr(mod, fname)
    if getattr(cur, "__rv_orig__", None) is not None:
        return cur.__rv_orig__
    wrapper = make_wrapper(cur)
    try:
        functools.update_wrapper(wrapper, cur)
    except Exception:
        pass
    wrapper.__rv_orig__ = cur  # type: ignore[attr-defined]
    rebind(cur, wrapper)
    if getattr(mod, fname) is not wrapper:
        setattr(mod, fname, wrapper)
    return cur


def original(fn: Callable) -> Callable:
    return getattr(fn, "__rv_orig__", fn)


class MonitorError(Exception):
    """Raised only if a monitor condition itself returns falsy (never by design)."""


def ensure(modname: str, fname: str, cond: Callable) -> Callable:
    """icontract postcondition on a real function, alias-safe.

    ``cond`` takes a subset of the function's parameter names plus ``result``
    (icontract semantics), *records* what it sees and always returns True: an
    ambient monitor never raises into the code it observes.  A bug inside the
    monitor is turned into an ``inconclusive`` reason, not into an exception.
    """
    import icontract

    from . import ctx as _ctx

    @functools.wraps(cond)
    def safe(*a, **k):
        try:
            cond(*a, **k)
        except Exception as exc:  # monitor bug -> inconclusive, never a verdict
            c = _ctx.CURRENT
            if c is not None:
                c.inconclusive_because(f"monitor_error:{fname}:{type(exc).__name__}:{exc}"[:200])
        return True

    def make(orig):
        return icontract.ensure(safe, error=MonitorError)(orig)

    return attach(modname, fname, make)


def snapshot_ensure(modname: str, fname: str, capture: Callable, name: str, cond: Callable) -> Callable:
    import icontract

    from . import ctx as _ctx

    @functools.wraps(cond)
    def safe(*a, **k):
        try:
            cond(*a, **k)
        except Exception as exc:
            c = _ctx.CURRENT
            if c is not None:
                c.inconclusive_because(f"monitor_error:{fname}:{type(exc).__name__}:{exc}"[:200])
        return True

    def make(orig):
        return icontract.snapshot(capture, name=name)(icontract.ensure(safe, error=MonitorError)(orig))

    return attach(modname, fname, make)
