"""Idempotent offline bootstrap of the monitoring dependencies.

icontract (+asttokens) and jsonschema are installed from the offline wheelhouse
into ``/verif/.deps`` (git-ignored) with the repository's own interpreter and
appended LAST to ``sys.path`` so that /venv's own packages always win (the
``--target`` install drops a second copy of typing_extensions / attrs there).
"""

from __future__ import annotations

import os
import subprocess
import sys

ROOT = os.path.dirname(os.path.dirname(os.path.dirname(os.path.abspath(__file__))))
DEPS = os.path.join(ROOT, ".deps")
WHEELS = "/opt/veriftools/wheels"
PKGS = ["icontract", "jsonschema"]


def _present() -> bool:
    return all(os.path.isdir(os.path.join(DEPS, p)) for p in PKGS)


def ensure(verbose: bool = False) -> bool:
    """Install if missing; put .deps last on sys.path. Returns availability."""
    if not _present():
        os.makedirs(DEPS, exist_ok=True)
        lock = os.path.join(DEPS, ".lock")
        try:
            import fcntl

            with open(lock, "w") as fh:
                fcntl.flock(fh, fcntl.LOCK_EX)
                if not _present():
                    cmd = [
                        sys.executable, "-m", "pip", "install", "--quiet",
                        "--no-index", "--find-links", WHEELS,
                        "--target", DEPS, "--upgrade", *PKGS,
                    ]
                    r = subprocess.run(cmd, capture_output=True, text=True)
                    if verbose or r.returncode != 0:
                        sys.stderr.write(r.stdout + r.stderr)
        except Exception as exc:  # pragma: no cover
            sys.stderr.write(f"deps: install failed: {exc!r}\n")
    if DEPS not in sys.path:
        sys.path.append(DEPS)
    return _present()


if __name__ == "__main__":
    ok = ensure(verbose=True)
    print("deps", "ok" if ok else "MISSING", DEPS)
    sys.exit(0 if ok else 2)
