"""Concurrent callers: the same pure calls, made from several threads at once.

The public functions of the library are documented as plain functions of their arguments.  A batch job that maps one
of them over a thread pool (``ThreadPoolExecutor.map(partial(buffer_geometry, time_buffer=...), geometries)``) makes
calls that overlap in time whenever the implementation releases the interpreter lock (shapely / numpy / libsndfile
do) or is pre-empted between two bytecodes.  The oracle is relational and needs no model: every call made while others
are in flight must return what the SAME call returns when made alone (the sequential answers are taken first, on fresh
copies of the arguments, through the un-instrumented functions, so that the monitors' own state is not shared between
threads -- the monitor must not become the race).  A difference means module-level state is shared between calls in
flight.  Exceptions are compared by type.
"""

from __future__ import annotations

import sys
import threading
from concurrent.futures import ThreadPoolExecutor


def _outcome(thunk):
    try:
        return "ok", thunk()
    except Exception as e:  # compared by type
        return type(e).__name__, None


def concurrent_agree(ctx, name, thunks, norm, spec, rounds=3, threads=8):
    """``thunks``: zero-argument callables, each building its OWN fresh arguments and making one call.
    ``norm``: result -> comparable value.  Records ``concurrent_calls`` and a violation keyed
    ``concurrent_call_differs:<name>`` when a call's answer in flight differs from its answer alone."""
    if len(thunks) < 2:
        return
    alone = []
    for th in thunks:
        st, v = _outcome(th)
        alone.append((st, norm(v) if st == "ok" else None))
    again = []
    for th in thunks:          # determinism alone first: a call that differs from itself is not a concurrency matter
        st, v = _outcome(th)
        again.append((st, norm(v) if st == "ok" else None))
    if again != alone:
        ctx.note(f"concurrent:{name}:not_deterministic_alone")
        return
    old = sys.getswitchinterval()
    sys.setswitchinterval(1e-5)
    try:
        for r in range(rounds):
            barrier = threading.Barrier(min(threads, len(thunks)))
            n_workers = min(threads, len(thunks))

            def run(i, th):
                if i < n_workers:
                    try:
                        barrier.wait(timeout=5)
                    except threading.BrokenBarrierError:
                        pass
                st, v = _outcome(th)
                return st, norm(v) if st == "ok" else None

            order = list(range(len(thunks)))
            if r % 2:
                order.reverse()
            with ThreadPoolExecutor(max_workers=n_workers) as ex:
                futs = {i: ex.submit(run, k, thunks[i]) for k, i in enumerate(order)}
                got = {i: f.result(timeout=300) for i, f in futs.items()}
            for i in range(len(thunks)):
                ctx.mon("concurrent_calls")
                if got[i] != alone[i]:
                    ctx.violate("concurrent_call_differs", f"concurrent_call_differs:{name}", observed=[got[i][0], repr(got[i][1])[:200]],
                                expected=[alone[i][0], repr(alone[i][1])[:200]], spec=dict(spec, concurrent_index=i, n_calls=len(thunks)))
                    return
    finally:
        sys.setswitchinterval(old)
