"""Seeded generator of soundevent object graphs (all eight collection types).

Everything — uuids, timestamps, floats — comes from the seeded RNG, so a case is
fully determined by ``(collection, graph_seed, knobs)``, which is what goes into
witnesses and evidence samples.
"""

from __future__ import annotations

import datetime
import math
import random
import uuid
from pathlib import Path

from rv.gen import geoms

COLLECTIONS = ["recording_set", "dataset", "annotation_set", "annotation_project",
               "evaluation_set", "prediction_set", "model_run", "evaluation"]

TERM_LABELS = ["species", "call_type", "quality", "sex", "behaviour", "antenna", "event", "habitat"]
# pairs whose "label<sep>value" concatenations coincide although the tags differ (and similar near misses)
COLLIDING = [("time:12", "30"), ("time", "12:30"), ("a,b", "c"), ("a", "b,c"), ("x|y", "z"), ("x", "y|z"), ("k", ""), ("", "k"), ("p/q", "r"), ("p", "q/r")]
FEATURE_LABELS = ["snr", "duration", "bandwidth", "peak_freq", "entropy", "loudness", "centroid", "flux"]
VALUES = ["Myotis myotis", "social", "good", "", "ünïcödé ✓", "a/b:c", " leading", "x" * 40, "0", "echolocation"]
STATES = None
LINK_DIR, LINK_TARGET = "lnk_dir", "lnk_target"


def make_link(audio_root):
    """Create <audio_root>/lnk_dir -> lnk_target (a real directory) if the root is absolute; idempotent."""
    import os

    root = Path(audio_root)
    if not root.is_absolute():
        return False
    try:
        (root / LINK_TARGET / "inner").mkdir(parents=True, exist_ok=True)
        if not (root / LINK_DIR).exists():
            os.symlink(LINK_TARGET, root / LINK_DIR)
        return True
    except OSError:
        return False


class GraphGen:
    def __init__(self, seed, p_opt=0.5, p_share=0.5, size=2, audio_root=None, geom_types=None, hostile=False, p_outside=0.0, p_id_reuse=0.0, p_twin=0.0):
        from soundevent import data

        self.data = data
        self.rng = random.Random(seed)
        self.p_opt = p_opt
        self.p_share = p_share
        self.size = size
        self.audio_root = Path(audio_root) if audio_root is not None else Path("/data/audio")
        self.geom_types = geom_types or geoms.TYPES
        self.hostile = hostile
        self.p_outside = p_outside
        self.n_outside = 0
        self.p_twin = p_twin             # an object equal in content to an earlier one, with its own identifier
        self.n_twins = 0
        self.p_id_reuse = p_id_reuse     # identifiers are unique per kind of object only: reuse one across kinds
        self.n_id_reused = 0
        self._ids = {}
        self.users, self.tags, self.recordings, self.clips = [], [], [], []
        self.sound_events, self.sequences = [], []
        self._terms = {}

    # ------------------------------------------------------------ primitives
    def opt(self, p=None):
        return self.rng.random() < (self.p_opt if p is None else p)

    def uid(self):
        u = uuid.UUID(int=self.rng.getrandbits(128), version=4)
        if self.p_id_reuse:
            import sys

            space = sys._getframe(1).f_code.co_qualname
            mine = self._ids.setdefault(space, set())
            others = sorted({x for k, v in self._ids.items() if k != space for x in v} - mine, key=str)
            if others and self.rng.random() < self.p_id_reuse:
                u = self.rng.choice(others)
                self.n_id_reused += 1
            mine.add(u)
        return u

    def dt(self):
        r = self.rng
        d = datetime.datetime(r.randint(2001, 2030), r.randint(1, 12), r.randint(1, 28), r.randint(0, 23), r.randint(0, 59), r.randint(0, 59),
                              r.choice([0, 0, r.randint(0, 999999)]))
        if r.random() < 0.15:
            d = d.replace(tzinfo=datetime.timezone.utc)
        return d

    def num(self):
        r = self.rng
        return r.choice([0.0, 1.0, -1.5, 0.1, 1 / 3, 1e-12, 123456.789, r.uniform(-1e3, 1e3), float(r.randint(-5, 5)), 5e-324, 1.7976931348623157e308])

    def unit(self):
        r = self.rng
        return r.choice([0.0, 1.0, 0.5, 0.1, 1 / 3, r.random(), 1 - 2 ** -53, 5e-324])

    def text(self):
        r = self.rng
        return r.choice(["note", "", "multi\nline", "ünïcödé ✓ 音", "quote\"s and \\ slashes", " padded ", "x" * 200, "{\"json\": 1}"])

    def term(self, label):
        if label not in self._terms:
            self._terms[label] = self.data.term_from_key(label)
        return self._terms[label]

    # ----------------------------------------------------------------- pools
    def pick(self, pool, make, p=None):
        if pool and self.rng.random() < (self.p_share if p is None else p):
            return self.rng.choice(pool)
        if pool and self.p_twin and self.rng.random() < self.p_twin and hasattr(pool[0], "uuid"):
            obj = self.rng.choice(pool).model_copy(update={"uuid": uuid.UUID(int=self.rng.getrandbits(128), version=4)})
            self.n_twins += 1
            pool.append(obj)
            return obj
        obj = make()
        pool.append(obj)
        return obj

    def user(self, fresh=False):
        def make():
            r = self.rng
            return self.data.User(
                uuid=self.uid(),
                username=r.choice(["alice", "bob_92", "ünï", ""]) if self.opt() else None,
                email=r.choice(["a@example.com", "first.last@uni.ac.uk", "Jane.Doe@Example.org", "O'Neil+tag@Sub.Example.COM", "ÜNÏ.user@example.org"]) if self.opt() else None,
                name=r.choice(["Alice A.", "Bob", "名前"]) if self.opt() else None,
                institution=r.choice(["UCL", "Inst. of ✓", ""]) if self.opt() else None,
            )
        if fresh:
            u = make()
            self.users.append(u)
            return u
        return self.pick(self.users, make)

    def tag(self, fresh=False):
        def make():
            r = self.rng
            if r.random() < 0.15:
                # draw BOTH members of a colliding pair so that they meet in one document
                i = r.randrange(0, len(COLLIDING), 2)
                pair = [self.data.Tag(term=self.term(l or "empty"), value=v) for l, v in COLLIDING[i:i + 2]]
                new = [t for t in pair if not any(t == x for x in self.tags)]
                if new:
                    self.tags.extend(new[1:])
                    return new[0]
            for _ in range(20):
                t = self.data.Tag(term=self.term(r.choice(TERM_LABELS)), value=r.choice(VALUES))
                if not any(t == x for x in self.tags):
                    return t
            return self.data.Tag(term=self.term(r.choice(TERM_LABELS)), value=f"v{r.getrandbits(32)}")
        if fresh:
            t = make()
            self.tags.append(t)
            return t
        return self.pick(self.tags, make)

    def tag_list(self, maxn=3):
        n = self.rng.choice([0, 0, 1, 2, maxn]) if self.opt(0.7) else 0
        out = []
        for _ in range(n):
            t = self.tag()
            if not any(t is x or t == x for x in out) or self.rng.random() < 0.12:   # now and then the same tag twice
                out.append(t)
        return out

    def features(self, maxn=3):
        if not self.opt(0.6):
            return []
        labels = self.rng.sample(FEATURE_LABELS, self.rng.randint(1, maxn))
        return [self.data.Feature(term=self.term(l), value=self.num()) for l in labels]

    def note(self):
        return self.data.Note(uuid=self.uid(), message=self.text(), created_by=self.user() if self.opt() else None,
                              is_issue=self.opt(0.3), created_on=self.dt())

    def notes(self):
        return [self.note() for _ in range(self.rng.choice([0, 0, 1, 2]))] if self.opt(0.6) else []

    def recording(self, subdir=None, outside=False):
        def make():
            r = self.rng
            name = r.choice(["rec.wav", "with space.wav", "ünï_音.flac", "a.b.c.wav", "REC_001.WAV", "trailing space.wav ", "\u3000wide.wav",
                             # characters that mean something to other systems but are plain file-name characters here
                             "take\\1.wav", "a:b.wav", "100%.wav", "#1 ?.wav", "C:\\rec.wav",
                             # names that are not in Unicode NFC: decomposed accents (as macOS hands them out), a singleton
                             # (ANGSTROM SIGN), a compatibility ideograph -- a different spelling is a different file
                             "re\u0301c 01.wav", "\u212b.wav", "\uf900.flac"])
            sub = subdir if subdir is not None else r.choice(["", "site1", "site 2/night", "a/b/c/d", "ünï", " leading space dir", "\u3000ideographic", "dir /x", "Cafe\u0301",
                                                             # spellings a user-typed or joined path can have: a '..' hop between two
                                                             # sub-directories and a sub-directory that is a symbolic link (LINK_DIR ->
                                                             # LINK_TARGET, created by the workload when the audio root is a real directory)
                                                             "site_a/../site_b", "deep/er/../../up", LINK_DIR + "/inner"])
            lead = "" if sub else r.choice(["", "", " "])   # a top-level file name may itself start with a blank
            out = outside or (self.p_outside > 0 and r.random() < self.p_outside)
            if out:
                self.n_outside += 1
            # outside roots include siblings whose *string* starts with the audio dir's string
            # (containment is a matter of path components, not of string prefixes) and the parent
            outside_roots = [Path("/elsewhere/other"), Path(str(self.audio_root) + "_backup"), Path(str(self.audio_root) + "2") / "x",
                             self.audio_root.parent, self.audio_root.parent / "sibling"]
            root = r.choice(outside_roots) if out else self.audio_root
            path = root / sub / f"{lead}{r.getrandbits(24):06x}_{name}"
            # (values a hair away from the default that AOEF omits: they are not the default)
            te = r.choice([1.0, 1.0, 10.0, 0.5, 2.5, math.nextafter(1.0, 2.0), math.nextafter(1.0, 0.0), 1.0000000005]) if self.opt() else 1.0
            return self.data.Recording(
                uuid=self.uid(), path=path, duration=r.choice([1.0, 10.0, 0.123, 3600.5]), channels=r.choice([1, 2, 4]),
                samplerate=r.choice([8000, 22050, 44100, 48000, 192000, 384000]), time_expansion=te,
                # (byte-identical copies of one file in two folders have the same checksum: a hash seen before comes back)
                hash=r.choice([f"{r.getrandbits(128):032x}", "", self._last_hash()]) if self.opt() else None,
                date=datetime.date(r.randint(1999, 2030), r.randint(1, 12), r.randint(1, 28)) if self.opt() else None,
                time=datetime.time(r.randint(0, 23), r.randint(0, 59), r.randint(0, 59), r.choice([0, r.randint(0, 999999)])) if self.opt() else None,
                latitude=r.choice([0.0, -0.0, r.uniform(-90, 90), 5e-324, -1e-300]) if self.opt() else None,
                longitude=r.choice([0.0, r.uniform(-180, 180), 180.0]) if self.opt() else None,
                license=r.choice(["CC-BY-4.0", "proprietary ✓", ""]) if self.opt() else None,
                owners=[self.user() for _ in range(r.choice([1, 2]))] if self.opt() else [],
                rights=r.choice(["(c) someone", "all rights reserved", ""]) if self.opt() else None,
                tags=self.tag_list(), features=self.features(), notes=self.notes(),
            )
        if outside or subdir is not None:
            rec = make()
            self.recordings.append(rec)
            return rec
        return self.pick(self.recordings, make, p=0.6)

    def clip(self, recording=None):
        def make():
            r = self.rng
            rec = recording or self.recording()
            s = r.choice([0.0, 0.5, 1.25, r.uniform(0, 5)])
            return self.data.Clip(uuid=self.uid(), recording=rec, start_time=s, end_time=s + r.choice([0.0, 1.0, 0.1, r.uniform(0, 10)]),
                                  features=self.features())
        if recording is not None:
            c = make()
            self.clips.append(c)
            return c
        return self.pick(self.clips, make)

    def _last_hash(self):
        hs = [x.hash for x in self.recordings if getattr(x, "hash", None)]
        return self.rng.choice(hs) if hs else f"{self.rng.getrandbits(128):032x}"

    def geometry(self):
        if self.opt(0.12):
            return None
        spec = geoms.random_geom(self.rng, self.rng.choice(self.geom_types), self.rng.choice(["realistic", "dyadic", "edge"]))
        g = geoms.build(spec)
        if type(g).__name__.startswith("Labelled"):
            # an application subclass cannot survive a document that stores the library's type tag: not part of C01
            g = geoms.build(spec, how="dict")
        return g

    def sound_event(self, clip=None):
        def make():
            rec = clip.recording if (clip is not None and not self.opt(0.15)) else self.recording()
            return self.data.SoundEvent(uuid=self.uid(), geometry=self.geometry(), recording=rec, features=self.features())
        return self.pick(self.sound_events, make, p=self.p_share * 0.5)

    def sequence(self, clip=None, depth=0):
        def make():
            r = self.rng
            parent = None
            if depth < 3 and self.opt(0.4):
                parent = self.sequence(clip, depth + 1)
            ses = [self.sound_event(clip) for _ in range(r.choice([0, 1, 2, 3]))]
            uniq = []
            for s in ses:
                if not any(s is x for x in uniq):
                    uniq.append(s)
            return self.data.Sequence(uuid=self.uid(), sound_events=uniq, features=self.features(), parent=parent)
        return self.pick(self.sequences, make, p=self.p_share * 0.4)

    # ------------------------------------------------------------ annotations
    def se_annotation(self, clip):
        return self.data.SoundEventAnnotation(uuid=self.uid(), sound_event=self.sound_event(clip), notes=self.notes(), tags=self.tag_list(),
                                              created_by=self.user() if self.opt() else None, created_on=self.dt())

    def seq_annotation(self, clip):
        return self.data.SequenceAnnotation(uuid=self.uid(), sequence=self.sequence(clip), notes=self.notes(), tags=self.tag_list(),
                                            created_by=self.user() if self.opt() else None, created_on=self.dt())

    def _distinct(self, items, key=lambda x: x.uuid):
        seen, out = set(), []
        for it in items:
            if key(it) not in seen:
                seen.add(key(it))
                out.append(it)
        return out

    def clip_annotation(self, clip=None):
        r = self.rng
        clip = clip or self.clip()
        ses = [self.se_annotation(clip) for _ in range(r.choice([0, 1, 2, self.size + 1]))] if self.opt(0.8) else []
        seqs = [self.seq_annotation(clip) for _ in range(r.choice([0, 1, 2]))] if self.opt(0.5) else []
        return self.data.ClipAnnotation(uuid=self.uid(), clip=clip, sound_events=ses, sequences=seqs, tags=self.tag_list(), notes=self.notes(), created_on=self.dt())

    # ------------------------------------------------------------ predictions
    def predicted_tags(self, maxn=3, fresh_tags=False):
        n = self.rng.choice([0, 1, 2, maxn]) if self.opt(0.7) else 0
        out, seen = [], []
        for _ in range(n):
            t = self.tag(fresh=fresh_tags and self.opt(0.5))
            if any(t == x for x in seen):
                continue
            seen.append(t)
            out.append(self.data.PredictedTag(tag=t, score=self.unit()))
        return out

    def se_prediction(self, clip, fresh_tags=False):
        return self.data.SoundEventPrediction(uuid=self.uid(), sound_event=self.sound_event(clip), score=self.unit(), tags=self.predicted_tags(fresh_tags=fresh_tags))

    def seq_prediction(self, clip, fresh_tags=False):
        return self.data.SequencePrediction(uuid=self.uid(), sequence=self.sequence(clip), score=self.unit(), tags=self.predicted_tags(fresh_tags=fresh_tags))

    def clip_prediction(self, clip=None, fresh_tags=False, force_sequences=False):
        r = self.rng
        clip = clip or self.clip()
        ses = [self.se_prediction(clip, fresh_tags) for _ in range(r.choice([0, 1, 2, self.size + 1]))] if self.opt(0.8) else []
        nseq = r.choice([1, 2]) if force_sequences else (r.choice([0, 1, 2]) if self.opt(0.5) else 0)
        seqs = [self.seq_prediction(clip, fresh_tags) for _ in range(nseq)]
        return self.data.ClipPrediction(uuid=self.uid(), clip=clip, sound_events=ses, sequences=seqs, tags=self.predicted_tags(fresh_tags=fresh_tags), features=self.features())

    # ------------------------------------------------------------ evaluations
    def clip_evaluation(self):
        r = self.rng
        # one ground truth scored against several model outputs, one output scored against several annotators: a clip
        # annotation / prediction may be shared by several clip evaluations
        prev = getattr(self, "_clip_evals", [])
        ann = pred = None
        if prev and self.opt(self.p_share * 0.6):
            other = r.choice(prev)
            x = r.random()
            if x < 0.4:
                ann = other.annotations
            elif x < 0.8:
                pred = other.predictions
            else:
                # the same clip pair evaluated again (another threshold, another matcher): its own Match objects between
                # the same predictions and annotations
                ann, pred = other.annotations, other.predictions
        clip = (ann or pred).clip if (ann or pred) is not None else self.clip()
        ann = ann or self.clip_annotation(clip)
        pred = pred or self.clip_prediction(clip)
        a, p = list(ann.sound_events), list(pred.sound_events)
        r.shuffle(a)
        r.shuffle(p)
        matches = []
        while a or p:
            src = tgt = None
            mode = r.choice(["both", "both", "src", "tgt"])
            if mode in ("both", "src") and p:
                src = p.pop()
            if mode in ("both", "tgt") and a:
                tgt = a.pop()
            if src is None and tgt is None:
                if p:
                    src = p.pop()
                else:
                    tgt = a.pop()
            matches.append(self.data.Match(uuid=self.uid(), source=src, target=tgt, affinity=self.unit() if (src and tgt) else 0.0,
                                           score=self.unit() if self.opt() else None, metrics=self.features()))
        ce = self.data.ClipEvaluation(uuid=self.uid(), annotations=ann, predictions=pred, matches=matches, metrics=self.features(),
                                      score=self.unit() if self.opt() else None)
        self._clip_evals = prev + [ce]
        return ce

    # ------------------------------------------------------------ collections
    def build(self, kind):
        r = self.rng
        d = self.data
        n = r.choice([0, 1, self.size, self.size + 2]) if self.opt(0.9) else 0
        if kind in ("recording_set", "dataset"):
            recs = self._distinct([self.recording() for _ in range(n)])
            if kind == "recording_set":
                return d.RecordingSet(uuid=self.uid(), recordings=recs, created_on=self.dt())
            return d.Dataset(uuid=self.uid(), recordings=recs, created_on=self.dt(), name=self.text() or "ds", description=self.text() if self.opt() else None)
        if kind in ("annotation_set", "annotation_project", "evaluation_set"):
            cas = self._distinct([self.clip_annotation() for _ in range(n)])
            if kind == "annotation_set":
                return d.AnnotationSet(uuid=self.uid(), clip_annotations=cas, created_on=self.dt())
            if kind == "evaluation_set":
                etags = [self.tag(fresh=self.opt(0.5)) for _ in range(r.choice([0, 1, 3]))] if self.opt(0.7) else []
                return d.EvaluationSet(uuid=self.uid(), clip_annotations=cas, created_on=self.dt(), name="eval set ✓", description=self.text() if self.opt() else None,
                                       evaluation_tags=self._distinct(etags, key=lambda t: (t.term.label, t.value)))
            global STATES
            STATES = list(d.AnnotationState)
            task_clips = self._distinct([ca.clip for ca in cas] + [self.clip() for _ in range(r.choice([0, 1, 2]))])
            tasks = []
            for c in task_clips:
                badges = [d.StatusBadge(state=r.choice(STATES), owner=self.user(fresh=self.opt(0.3)) if self.opt() else None, created_on=self.dt())
                          for _ in range(r.choice([0, 1, 2]))] if self.opt(0.7) else []
                tasks.append(d.AnnotationTask(uuid=self.uid(), clip=c, status_badges=badges, created_on=self.dt()))
            r.shuffle(tasks)
            ptags = [self.tag(fresh=self.opt(0.5)) for _ in range(r.choice([0, 1, 3]))] if self.opt(0.7) else []
            return d.AnnotationProject(uuid=self.uid(), clip_annotations=cas, created_on=self.dt(), name="project", description=self.text() if self.opt() else None,
                                       instructions=self.text() if self.opt() else None,
                                       annotation_tags=self._distinct(ptags, key=lambda t: (t.term.label, t.value)), tasks=tasks)
        if kind in ("prediction_set", "model_run"):
            cps = self._distinct([self.clip_prediction(fresh_tags=True, force_sequences=self.opt(0.5)) for _ in range(n)])
            if kind == "prediction_set":
                return d.PredictionSet(uuid=self.uid(), clip_predictions=cps, created_on=self.dt())
            return d.ModelRun(uuid=self.uid(), clip_predictions=cps, created_on=self.dt(), name="model ✓", version="1.2.3" if self.opt() else None,
                              description=self.text() if self.opt() else None)
        if kind == "evaluation":
            ces = self._distinct([self.clip_evaluation() for _ in range(n)])
            return d.Evaluation(uuid=self.uid(), created_on=self.dt(), evaluation_task=r.choice(["sound_event_detection", "clip_classification"]),
                                clip_evaluations=ces, metrics=self.features(),
                                # the overall score of an evaluation is any float (a percentage, a loss, a mean one ulp above 1)
                                score=r.choice([self.unit(), 87.5, -2.5, 1.0000000000000002, 1e6]) if self.opt() else None)
        raise ValueError(kind)


def make(kind, graph_seed, **knobs):
    g = GraphGen(graph_seed, **knobs)
    return g.build(kind), g
