"""Seeded generators of geometry *case specs* (plain dicts) and their builders.

A spec is ``{"type": <tag>, "coordinates": <plain lists / numbers>}`` — exactly
what goes into witnesses — and ``build`` materialises it through the library's
own ``geometry_validate``.
"""

from __future__ import annotations

import math
from typing import Optional

MAXF = 5_000_000

TYPES = [
    "TimeStamp", "TimeInterval", "Point", "LineString", "Polygon",
    "BoundingBox", "MultiPoint", "MultiLineString", "MultiPolygon",
]
TIME_ONLY = ("TimeStamp", "TimeInterval")
ZERO_ONE_D = ("TimeStamp", "Point", "MultiPoint", "LineString", "MultiLineString")
AREAL = ("TimeInterval", "BoundingBox", "Polygon", "MultiPolygon")


_RNG = None          # set by set_rng(): when present, build() varies HOW the object is constructed
PATHS_USED: dict = {}
_SUBCLASSES: dict = {}


def set_rng(rng) -> None:
    global _RNG
    _RNG = rng


def build(spec: dict, how: str = None):
    """Materialise a spec through the library. With an RNG installed (set_rng) about a third of the objects
    come into being the way application code produces them: through the constructor, from JSON, as a deep copy /
    pickle round trip, or by editing a copy of another, already used, geometry (model_copy(update=...)) — the
    properties quantify over geometries, not over one way of making them."""
    from soundevent import data

    if how is None and _RNG is not None and _RNG.random() < 0.35:
        how = _RNG.choice(["constructor", "json", "deepcopy", "pickle", "derived", "derived", "assigned", "tuples", "subclass"])
    how = how or "dict"
    PATHS_USED[how] = PATHS_USED.get(how, 0) + 1
    g = data.geometry_validate(spec, mode="dict")
    if how == "dict":
        return g
    try:
        if how == "tuples":
            # list(zip(times, freqs)) / shapely coords: points arrive as tuples
            return data.geometry_validate({"type": spec["type"], "coordinates": _tuples(spec["coordinates"])}, mode="dict")
        if how == "subclass":
            # an application's own class derived from the library's (a labelled box, a geometry with provenance):
            # it IS a geometry of that type
            cls = _SUBCLASSES.get(type(g))
            if cls is None:
                cls = _SUBCLASSES[type(g)] = type("Labelled" + type(g).__name__, (type(g),), {"__annotations__": {"label": str}, "label": "call"})
            return cls(coordinates=g.coordinates, label="x")
        if how == "constructor":
            return type(g)(coordinates=g.coordinates)
        if how == "json":
            return data.geometry_validate(g.model_dump_json(), mode="json")
        if how == "deepcopy":
            import copy

            return copy.deepcopy(g)
        if how == "pickle":
            import pickle

            return pickle.loads(pickle.dumps(g))
        if how in ("derived", "assigned"):
            from soundevent.geometry import operations as O

            other = data.geometry_validate(random_geom(_RNG or __import__("random").Random(0), spec["type"], "dyadic"), mode="dict")
            try:
                O.compute_bounds(other)
                O.buffer_geometry(other, 0.01, 10.0)
                other._repr_html_()
                hash(repr(other))
            except Exception:
                pass
            if how == "derived":
                return other.model_copy(update={"coordinates": g.coordinates})
            other.coordinates = g.coordinates      # attribute assignment on a used object
            return other
    except Exception:
        return g
    return g


def build_derived(spec: dict, rng):
    """The same geometry, but obtained the way application code often obtains one: by editing a copy of
    another, already used, geometry (``model_copy(update=...)``).  Whatever the library remembered about the
    other object must not follow the copy."""
    from soundevent.geometry import operations as O

    target = build(spec, how="dict")
    other = build(random_geom(rng, spec["type"], "dyadic"), how="dict")
    try:
        O.compute_bounds(other)
        hash(repr(other))
        other._repr_html_()
    except Exception:
        pass
    return other.model_copy(update={"coordinates": target.coordinates})


def edit_in_place(geom, rng) -> None:
    """Give an existing geometry object other coordinates by attribute assignment (what an interactive
    annotation tool does when a box is dragged). The new coordinates are valid and in normal form."""
    other = build(random_geom(rng, geom.type, rng.choice(["dyadic", "realistic"])), how="dict")
    if isinstance(geom.coordinates, list) and rng.random() < 0.5:
        # the coordinate list itself is edited (a vertex dragged, a point appended): same list object, new content
        geom.coordinates[:] = other.coordinates
    else:
        geom.coordinates = other.coordinates


def _tuples(c):
    if isinstance(c, list):
        inner = [_tuples(v) for v in c]
        return tuple(inner) if all(not isinstance(v, list) for v in c) else inner
    return c


def to_spec(geom) -> dict:
    return {"type": geom.type, "coordinates": _plain(geom.coordinates)}


def _plain(x):
    if isinstance(x, (list, tuple)):
        return [_plain(v) for v in x]
    return x


def _q(v: float, dyadic: Optional[float]) -> float:
    if dyadic:
        return round(v / dyadic) * dyadic
    return v


def _star(rng, n: int, rmin=0.4, rmax=1.0, cx=0.0, cy=0.0, scale=1.0):
    pts = []
    phase = rng.random()
    for k in range(n):
        a = 2 * math.pi * (k + phase + 0.4 * rng.random()) / n
        r = scale * rng.uniform(rmin, rmax)
        pts.append((cx + r * math.cos(a), cy + r * math.sin(a)))
    return pts


def _fit(pts_groups, t0, t1, f0, f1):
    """Affine-map all points so the overall bounds are exactly the box."""
    xs = [p[0] for g in pts_groups for p in g]
    ys = [p[1] for g in pts_groups for p in g]
    x0, x1, y0, y1 = min(xs), max(xs), min(ys), max(ys)
    out = []
    for g in pts_groups:
        gg = []
        for x, y in g:
            if x == x0:
                t = t0
            elif x == x1:
                t = t1
            else:
                t = t0 + (x - x0) / (x1 - x0) * (t1 - t0) if x1 > x0 else t0
                t = min(max(t, t0), t1)
            if y == y0:
                f = f0
            elif y == y1:
                f = f1
            else:
                f = f0 + (y - y0) / (y1 - y0) * (f1 - f0) if y1 > y0 else f0
                f = min(max(f, f0), f1)
            gg.append([t, f])
        out.append(gg)
    return out


def _ring(pts):
    return [list(p) for p in pts] + [list(pts[0])]


def polygon_in_box(rng, t0, t1, f0, f1, holes=None):
    n = rng.randint(3, 8)
    if holes is None:
        holes = rng.choice([0, 0, 1, 2]) if n >= 4 else 0
    if n < 4:
        holes = 0
    shell = _star(rng, n)
    groups = [shell]
    if holes == 1:
        groups.append(_star(rng, rng.randint(3, 5), 0.5, 1.0, 0, 0, 0.12)[::-1])
    elif holes >= 2:
        groups.append(_star(rng, rng.randint(3, 5), 0.5, 1.0, -0.08, 0.0, 0.05)[::-1])
        groups.append(_star(rng, rng.randint(3, 5), 0.5, 1.0, 0.08, 0.0, 0.05)[::-1])
    fitted = _fit(groups, t0, t1, f0, f1)
    return {"type": "Polygon", "coordinates": [_ring(g) for g in fitted]}


def _excursion_line(rng, t0, t1, f0, f1):
    """A simple (non-self-intersecting) line that is NOT monotone in time: frequencies are strictly
    monotone, times wander, and the time extremes are reached at INTERIOR vertices."""
    n = rng.randint(4, 7)
    fs = sorted(rng.random() for _ in range(n - 2))
    fs = [0.0] + [max(f, 1e-3 * (i + 1)) for i, f in enumerate(fs)] + [1.0]
    for i in range(1, n):
        if fs[i] <= fs[i - 1]:
            fs[i] = fs[i - 1] + 1e-4
    top = fs[-1]
    fs = [f / top for f in fs]
    if rng.random() < 0.5:
        fs = [1 - f for f in fs]
    ts = [rng.uniform(0.2, 0.8) for _ in range(n)]
    i_min, i_max = rng.sample(range(1, n - 1), 2) if n >= 4 else (1, 1)
    ts[i_min], ts[i_max] = 0.0, 1.0
    a, b = sorted((rng.uniform(0.1, 0.45), rng.uniform(0.55, 0.9)))
    ts[0], ts[-1] = a, b     # first strictly before last: already in normal form
    return [[t0 + t * (t1 - t0), f0 + f * (f1 - f0)] for t, f in zip(ts, fs)]


def line_in_box(rng, t0, t1, f0, f1, n=None):
    if n is None and t1 > t0 and f1 > f0 and rng.random() < 0.3:
        return _excursion_line(rng, t0, t1, f0, f1)
    n = n or rng.randint(2, 7)
    ts = sorted(rng.random() for _ in range(n - 2))
    ts = [0.0] + ts + [1.0]
    # strictly increasing times -> simple (non-self-intersecting) line
    for i in range(1, len(ts)):
        if ts[i] <= ts[i - 1]:
            ts[i] = ts[i - 1] + 1e-3
    fs = [rng.random() for _ in range(n)]
    fs[rng.randrange(n)] = 0.0
    j = rng.randrange(n)
    if fs[j] == 0.0:
        j = (j + 1) % n
    fs[j] = 1.0
    tn = ts[-1]
    pts = []
    for t, f in zip(ts, fs):
        tt = t0 + (t / tn) * (t1 - t0)
        pts.append([min(max(tt, t0), t1), f0 + f * (f1 - f0)])
    pts[0][0] = t0
    pts[-1][0] = t1
    return pts


def geom_in_box(rng, typ: str, t0: float, t1: float, f0: float, f1: float) -> dict:
    """A valid geometry of type ``typ`` whose bounds are (a subset of) the box.

    For types with extent the time bounds are exactly [t0, t1] (and frequency
    bounds [f0, f1] for 2-D types) so touching / nesting can be forced exactly.
    """
    if typ == "TimeStamp":
        return {"type": typ, "coordinates": rng.choice([t0, t1, t0 + rng.random() * (t1 - t0)])}
    if typ == "TimeInterval":
        return {"type": typ, "coordinates": [t0, t1]}
    if typ == "BoundingBox":
        return {"type": typ, "coordinates": [t0, f0, t1, f1]}
    if typ == "Point":
        return {"type": typ, "coordinates": [
            rng.choice([t0, t1, t0 + rng.random() * (t1 - t0)]),
            rng.choice([f0, f1, f0 + rng.random() * (f1 - f0)])]}
    if typ == "MultiPoint":
        n = rng.randint(1, 5)
        pts = [[t0 + rng.random() * (t1 - t0), f0 + rng.random() * (f1 - f0)] for _ in range(n)]
        pts[0][0] = t0
        pts[-1][0] = t1
        pts[0][1] = f0 if n > 1 else pts[0][1]
        pts[-1][1] = f1
        return {"type": typ, "coordinates": pts}
    if typ == "LineString":
        if t1 > t0 and f1 > f0 and rng.random() < 0.1:
            # first and last vertex at the same instant: a contour that comes back to where it started (neither end is
            # "later", so there is nothing to normalise)
            fm = f0 + rng.random() * (f1 - f0)
            return {"type": typ, "coordinates": rng.choice([[[t0, f0], [t1, fm], [t0, f1]], [[t0, f0], [t1, f0], [t1, f1], [t0, f1]], [[t0, f1], [t1, fm], [t0, f0]],
                                                            # ... or exactly back at its first vertex: a closed loop is still a line string
                                                            [[t0, f0], [t1, f0], [t1, f1], [t0, f0]], [[t0, fm], [t1, f0], [t1, f1], [t0, f1], [t0, fm]]])}
        return {"type": typ, "coordinates": line_in_box(rng, t0, t1, f0, f1)}
    if typ == "MultiLineString":
        n = rng.randint(1, 4)
        lines = []
        # consecutive time windows (may share end points), random bands
        cuts = sorted(rng.random() for _ in range(n - 1))
        edges = [0.0] + cuts + [1.0]
        for k in range(n):
            a = t0 + edges[k] * (t1 - t0)
            b = t0 + edges[k + 1] * (t1 - t0)
            if k == 0:
                a = t0
            if k == n - 1:
                b = t1
            if not b > a:
                continue
            lo = f0 + rng.random() * 0.5 * (f1 - f0)
            hi = lo + rng.random() * (f1 - lo)
            if k == 0:
                lo, hi = f0, f1
            if not hi > lo:
                hi = f1
                lo = f0
            lines.append(line_in_box(rng, a, b, lo, hi))
        if not lines:
            lines = [line_in_box(rng, t0, t1, f0, f1)]
        if len(lines) > 1 and rng.random() < 0.35:
            # a contour drawn in several strokes: each stroke starts exactly where the previous one ended
            for k in range(1, len(lines)):
                if lines[k][-1][0] > lines[k - 1][-1][0]:
                    lines[k][0] = list(lines[k - 1][-1])
        return {"type": typ, "coordinates": lines}
    if typ == "Polygon":
        return polygon_in_box(rng, t0, t1, f0, f1)
    if typ == "MultiPolygon":
        n = rng.randint(1, 4)
        polys = []
        w = (t1 - t0) / (2 * n - 1) if n > 1 else (t1 - t0)
        for k in range(n):
            a = t0 + 2 * k * w
            b = a + w
            if k == n - 1:
                b = t1
            if k == 0:
                a = t0
            lo, hi = f0, f1
            if n > 1 and k not in (0,):
                lo = f0 + rng.random() * 0.4 * (f1 - f0)
                hi = f1 - rng.random() * 0.4 * (f1 - f0)
            polys.append(polygon_in_box(rng, a, b, lo, hi)["coordinates"])
        return {"type": typ, "coordinates": polys}
    raise ValueError(typ)


def random_box(rng, style="realistic"):
    """(t0, t1, f0, f1) with t0<t1, f0<f1 in bioacoustic magnitudes."""
    if style == "dyadic":
        t0 = rng.randrange(0, 40) / 4
        t1 = t0 + rng.randrange(1, 20) / 4
        f0 = float(rng.randrange(0, 64) * 256)
        f1 = f0 + rng.randrange(1, 64) * 256
        return t0, t1, f0, f1
    if style == "edge":
        t0 = rng.choice([0.0, 0.0, rng.uniform(0, 5)])
        t1 = t0 + rng.uniform(0.01, 5)
        if rng.random() < 0.5:
            f0 = 0.0
            f1 = rng.uniform(100, 20000)
        else:
            f1 = float(MAXF)
            f0 = MAXF - rng.uniform(100, 20000)
        if rng.random() < 0.2:
            f0, f1 = 0.0, float(MAXF)
        return t0, t1, f0, f1
    t0 = rng.uniform(0, 60)
    t1 = t0 + rng.choice([rng.uniform(0.005, 0.2), rng.uniform(0.2, 5), rng.uniform(5, 30)])
    f0 = rng.uniform(0, 90000)
    f1 = f0 + rng.choice([rng.uniform(50, 2000), rng.uniform(2000, 40000)])
    return t0, t1, f0, f1


def random_geom(rng, typ=None, style="realistic") -> dict:
    typ = typ or rng.choice(TYPES)
    return geom_in_box(rng, typ, *random_box(rng, style))


def is_shapely_valid(geom) -> bool:
    from soundevent.geometry import conversion

    if getattr(geom, "type", None) in ("TimeStamp", "TimeInterval", "BoundingBox"):
        # closed-form types are valid as validated by the data model; one drawn without duration or bandwidth is a
        # legitimate geometry of zero extent although shapely calls its flat ring invalid
        return True
    try:
        s = getattr(conversion.geometry_to_shapely, "__rv_orig__", conversion.geometry_to_shapely)(geom)
        return bool(s.is_valid) and not s.is_empty
    except Exception:
        return False


# ----------------------------------------------------------------------------
# plain-python helpers on specs (independent of the library)

def flat_points(spec: dict) -> list:
    """All (time, freq) pairs of a 2-D geometry spec; [] for time-only types."""
    t, c = spec["type"], spec["coordinates"]
    if t == "Point":
        return [tuple(c)]
    if t in ("LineString", "MultiPoint"):
        return [tuple(p) for p in c]
    if t in ("Polygon", "MultiLineString"):
        return [tuple(p) for part in c for p in part]
    if t == "MultiPolygon":
        return [tuple(p) for poly in c for ring in poly for p in ring]
    if t == "BoundingBox":
        return [(c[0], c[1]), (c[2], c[3])]
    return []


def ref_bounds(spec: dict):
    """Reference (min t, min f, max t, max f) from the statement of C05."""
    t, c = spec["type"], spec["coordinates"]
    if t == "TimeStamp":
        return (c, 0, c, MAXF)
    if t == "TimeInterval":
        return (c[0], 0, c[1], MAXF)
    pts = flat_points(spec)
    ts = [p[0] for p in pts]
    fs = [p[1] for p in pts]
    return (min(ts), min(fs), max(ts), max(fs))


def shift_time(spec: dict, dt: float) -> dict:
    t, c = spec["type"], spec["coordinates"]

    def sh(x):
        if isinstance(x, (list, tuple)):
            if len(x) == 2 and not isinstance(x[0], (list, tuple)):
                return [x[0] + dt, x[1]]
            return [sh(v) for v in x]
        return x

    if t == "TimeStamp":
        return {"type": t, "coordinates": c + dt}
    if t == "TimeInterval":
        return {"type": t, "coordinates": [c[0] + dt, c[1] + dt]}
    if t == "BoundingBox":
        return {"type": t, "coordinates": [c[0] + dt, c[1], c[2] + dt, c[3]]}
    if t == "Point":
        return {"type": t, "coordinates": [c[0] + dt, c[1]]}
    return {"type": t, "coordinates": sh(c)}


def regroupings(spec: dict) -> list:
    """Valid geometries of the same type made of the SAME numbers in the same order, grouped differently
    (one line split in two, two lines joined, a ring split into shell + hole, polygons merged into one
    polygon's rings, ...).  They differ only in structure, which is exactly what a lossy identity (a key
    that flattens, sorts or stringifies coordinates) cannot tell apart."""
    t, c = spec["type"], spec["coordinates"]
    out = []
    if t == "MultiLineString":
        flat = [p for line in c for p in line]
        if len(c) > 1:
            out.append([flat])
        for line_i, line in enumerate(c):
            if len(line) >= 4:
                k = len(line) // 2
                out.append(c[:line_i] + [line[:k], line[k:]] + c[line_i + 1:])
                break
    elif t == "Polygon":
        if len(c) > 1:
            out.append([[p for ring in c for p in ring]])
        elif len(c[0]) >= 6:
            k = len(c[0]) // 2
            out.append([c[0][:k], c[0][k:]])
    elif t == "MultiPolygon":
        rings = [r for poly in c for r in poly]
        if len(rings) > 1:
            out.append([rings])
            out.append([[r] for r in rings])
        elif len(rings[0]) >= 6:
            k = len(rings[0]) // 2
            out.append([[rings[0][:k]], [rings[0][k:]]])
            out.append([[rings[0][:k], rings[0][k:]]])
    elif t == "MultiPoint" and len(c) >= 2:
        out.append(c[::-1])
    res = []
    from soundevent import data

    for co in out:
        s2 = {"type": t, "coordinates": co}
        if co == c:
            continue
        try:
            g = data.geometry_validate(s2, mode="dict")
        except Exception:
            continue
        res.append(to_spec(g))
    return res


def lookalikes(spec: dict) -> list:
    """Valid geometries of OTHER types that coincide with ``spec`` under some projection a careless identity might
    use: the same ``coordinates`` payload under another type tag (a contour and its nodes, a point and an interval),
    or the same shapely shape (a time stamp and the full-height vertical line it is converted to, an interval and
    the full-height box, a box and its rectangle polygon, a one-member multi-geometry and its member)."""
    t, c = spec["type"], spec["coordinates"]
    maxf = float(MAXF)
    cand = []
    if t == "TimeStamp":
        cand += [("LineString", [[c, 0.0], [c, maxf]])]
    elif t == "TimeInterval":
        cand += [("BoundingBox", [c[0], 0.0, c[1], maxf]), ("Point", list(c))]
    elif t == "Point":
        cand += [("MultiPoint", [list(c)]), ("TimeInterval", list(c))]
    elif t == "MultiPoint":
        cand += [("LineString", [list(p) for p in c])] + ([("Point", list(c[0]))] if len(c) == 1 else [])
    elif t == "LineString":
        cand += [("MultiPoint", [list(p) for p in c]), ("MultiLineString", [[list(p) for p in c]])]
        if len(c) >= 4:
            cand += [("Polygon", [[list(p) for p in c]])]
    elif t == "MultiLineString":
        cand += [("Polygon", [[list(p) for p in l] for l in c]), ("MultiPolygon", [[[list(p) for p in l] for l in c]])]
        if len(c) == 1:
            cand += [("LineString", [list(p) for p in c[0]])]
    elif t == "Polygon":
        cand += [("MultiLineString", [[list(p) for p in r] for r in c]), ("MultiPolygon", [[[list(p) for p in r] for r in c]])]
        if len(c) == 1:
            cand += [("LineString", [list(p) for p in c[0]])]
    elif t == "MultiPolygon":
        if len(c) == 1:
            cand += [("Polygon", [[list(p) for p in r] for r in c[0]]), ("MultiLineString", [[list(p) for p in r] for r in c[0]])]
    elif t == "BoundingBox":
        a, lo, b, hi = c
        cand += [("Polygon", [[[a, lo], [b, lo], [b, hi], [a, hi], [a, lo]]])]
        if lo == 0.0 and hi == maxf:
            cand += [("TimeInterval", [a, b])]
    res = []
    from soundevent import data

    for typ, co in cand:
        try:
            g = data.geometry_validate({"type": typ, "coordinates": co}, mode="dict")
        except Exception:
            continue
        if typ not in ("TimeStamp", "TimeInterval", "BoundingBox") and not is_shapely_valid(g):
            continue
        res.append(to_spec(g))
    return res
