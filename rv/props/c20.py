"""C20 — rasterisation marks exactly the bins a geometry covers, on the template's axes."""

from __future__ import annotations

import math

import numpy as np

from rv.core import calling, scribble
from rv.gen import geoms

ANCHORS = ("geometry/operations.py", "arrays/dimensions.py")
THOROUGH_SHARDS = 12
MAXF = float(geoms.MAXF)
LINEAR = ("LineString", "MultiLineString")


def _template(tspec):
    import xarray as xr

    _dt = lambda xs: np.int64 if all(isinstance(x, int) and not isinstance(x, bool) for x in xs) else float
    t = np.array(tspec["time"], dtype=_dt(tspec["time"]))
    f = np.array(tspec["freq"], dtype=_dt(tspec["freq"]))
    rng = np.random.default_rng(tspec.get("content_seed", 0))
    if tspec["order"] == "tf":
        dims, shape = ("time", "frequency"), (len(t), len(f))
    elif tspec["order"] == "ft":
        dims, shape = ("frequency", "time"), (len(f), len(t))
    elif tspec["order"] == "ctf":
        dims, shape = ("channel", "time", "frequency"), (2, len(t), len(f))
    else:
        dims, shape = ("frequency", "time", "channel"), (len(f), len(t), 2)
    data = rng.normal(size=shape)
    if tspec.get("nan_content"):
        data[...] = np.nan
    coords = {"time": t, "frequency": f}
    if tspec.get("step_attrs"):
        # coordinates carry a `step` attribute, as arrays built by create_*_range / compute_spectrogram do;
        # "stale" = the attribute describes the spacing before a decimation (xarray keeps attrs on isel)
        k = 0.5 if tspec["step_attrs"] == "stale" else 1.0
        st = (t[1] - t[0]) * k if len(t) > 1 else 1.0
        sf = (f[1] - f[0]) * k if len(f) > 1 else 1.0
        coords = {"time": xr.Variable("time", t, attrs={"step": float(st), "units": "s"}), "frequency": xr.Variable("frequency", f, attrs={"step": float(sf), "units": "Hz"})}
    if tspec.get("range_attrs"):
        # coordinates annotated with their range (start / end / stop, as the dimension helpers' documentation describes);
        # "stale" = the annotation describes the axis before it was cropped.  The coordinates are what counts.
        def annotate(name, c):
            v = coords[name] if isinstance(coords[name], xr.Variable) else xr.Variable(name, c)
            st_ = float(c[1] - c[0]) if len(c) > 1 else 1.0
            lo, hi = (float(c[0]), float(c[-1]) + st_) if tspec["range_attrs"] == "consistent" else (float(c[0]) - 5 * st_, float(c[-1]) + 3 * st_)
            v.attrs.update(start=lo, end=hi, stop=hi, min=lo, max=hi)
            return v
        coords = {"time": annotate("time", t), "frequency": annotate("frequency", f)}
    if "channel" in dims:
        coords["channel"] = [0, 1]
    arr = xr.DataArray(data, dims=dims, coords=coords)
    names = tspec.get("names")
    if names:
        arr = arr.rename({"time": names[0], "frequency": names[1]})
    return arr


def _idx(coords, v):
    """Independent re-statement of the bin rule: index of the bin containing v; clamps 0 / n."""
    n = len(coords)
    if v < coords[0]:
        return 0
    if v > coords[-1]:
        return n
    return int(np.searchsorted(coords, v, side="right") - 1)


def _index_space(spec, t, f):
    """shapely geometry of ``spec`` with every vertex mapped to (time bin, frequency bin)."""
    import shapely
    from shapely import geometry as sg

    ty, c = spec["type"], spec["coordinates"]
    m = lambda p: (_idx(t, p[0]), _idx(f, p[1]))
    if ty == "TimeStamp":
        return sg.LineString([m((c, 0)), m((c, MAXF))])
    if ty == "TimeInterval":
        return sg.box(*m((c[0], 0)), *m((c[1], MAXF)))
    if ty == "BoundingBox":
        return sg.box(*m((c[0], c[1])), *m((c[2], c[3])))
    if ty == "Point":
        return sg.Point(m(c))
    if ty == "MultiPoint":
        return sg.MultiPoint([m(p) for p in c])
    if ty == "LineString":
        return sg.LineString([m(p) for p in c])
    if ty == "MultiLineString":
        return sg.MultiLineString([[m(p) for p in l] for l in c])
    if ty == "Polygon":
        return sg.Polygon([m(p) for p in c[0]], [[m(p) for p in r] for r in c[1:]])
    return sg.MultiPolygon([sg.Polygon([m(p) for p in poly[0]], [[m(p) for p in r] for r in poly[1:]]) for poly in c])


def expected_raster(gspecs, values, t, f, fill):
    """(expected, known) arrays over (time, frequency) for all_touched=False."""
    import shapely

    nt, nf = len(t), len(f)
    exp = np.full((nt, nf), fill, dtype=float)
    known = np.ones((nt, nf), dtype=bool)
    ii, jj = np.meshgrid(np.arange(nt) + 0.5, np.arange(nf) + 0.5, indexing="ij")
    pts = shapely.points(ii.ravel(), jj.ravel())
    for spec, val in zip(gspecs, values):
        g = _index_space(spec, t, f)
        if spec["type"] in geoms.AREAL:
            if g.is_empty or g.area == 0:
                # degenerate in index space: GDAL may or may not burn a sliver; cells near it unknown
                near = shapely.distance(pts, g) <= 0.75
                known.ravel()[near] = False
                continue
            if not g.is_valid:
                # snapping vertices to bin indices can make a polygon invalid (a hole poking out of its shell,
                # self-touching rings): "inside" is then ambiguous (even-odd vs. union), nothing in its envelope is judged
                x0, y0, x1, y1 = g.bounds
                near = shapely.distance(pts, shapely.box(x0 - 1, y0 - 1, x1 + 1, y1 + 1)) <= 0
                known.ravel()[near] = False
                continue
            inside = shapely.contains(g, pts)
            edge = shapely.distance(pts, g.boundary) <= 1e-9
            e, k = exp.ravel(), known.ravel()
            sure = inside & ~edge
            e[sure] = val
            k[sure] = True
            k[edge] = False
            exp, known = e.reshape(nt, nf), k.reshape(nt, nf)
        else:
            near = shapely.distance(pts, g) <= 1.5
            k = known.ravel()
            k[near] = False
            known = k.reshape(nt, nf)
    return exp, known


def _eqnan(a, b):
    return (a == b) | (np.isnan(a) & np.isnan(b))


def judge(ctx, tspec, gspecs, values, fill, dtype, all_touched_check=True, after=None):
    from soundevent.geometry import operations as O

    arr = _template(tspec)
    t, f = np.array(tspec["time"], float), np.array(tspec["freq"], float)
    gs = [geoms.build(s) for s in gspecs]
    spec = {"kind": "raster", "template": tspec, "geoms": gspecs, "values": values, "fill": fill if not (isinstance(fill, float) and math.isnan(fill)) else "nan", "dtype": dtype}
    if after is not None:
        spec["after_same_geometries_on"] = after          # (the call history is part of the case)
    vals_list = values if isinstance(values, list) else [values] * len(gs)
    kw = {"values": values, "fill": fill, "dtype": np.dtype(dtype)}
    names = tspec.get("names")
    if names:
        kw.update(xdim=names[0], ydim=names[1])
    ctx.mon("rasterize.calls")
    if isinstance(values, list) and len(values) != len(gs):
        try:
            O.rasterize(gs, arr, **kw)
            ctx.violate("rejects_value_mismatch", "rejects_value_mismatch", observed="returned", expected="ValueError", spec=spec)
        except ValueError:
            pass
        except Exception as e:
            ctx.violate_exc("rejects_value_mismatch", f"rejects_value_mismatch:wrong_exception:{type(e).__name__}", e, spec=spec)
        return
    try:
        res = O.rasterize(gs, arr, **kw)
    except Exception as e:
        key = f"raises:{type(e).__name__}"
        if len(t) != len(f) and tspec["order"] == "tf" and "conflicting sizes" in str(e):
            key = "raises:non_square_time_frequency_template"
        ctx.violate_exc("raises", key, e, spec=spec)
        return
    if ctx.every(spec, 5) and not names:
        calling.agree(ctx, "rasterize", O.rasterize, dict(geometries=gs, array=arr, values=values, fill=fill, dtype=np.dtype(dtype)), spec,
                      same=lambda x, y: list(x.dims) == list(y.dims) and np.array_equal(np.asarray(x.data), np.asarray(y.data), equal_nan=True),
                      variants={"boolish_all_touched": {"all_touched": calling.boolish(ctx.rng, False)}})
    ctx.mon("rasterize.result")
    # axes
    if names:
        try:
            res = res.rename({names[0]: "time", names[1]: "frequency"})
        except Exception:
            pass
    ok_axes = (set(res.dims) == {"time", "frequency"} and np.array_equal(res.coords["time"].data, t) and np.array_equal(res.coords["frequency"].data, f))
    if not ok_axes:
        ctx.violate("template_axes", "template_axes", observed={"dims": list(res.dims), "shape": list(res.shape)}, expected={"time": len(t), "frequency": len(f)}, spec=spec)
        return
    if res.dtype != np.dtype(dtype):
        ctx.violate("dtype", "dtype", observed=str(res.dtype), expected=dtype, spec=spec)
    got = res.transpose("time", "frequency").data.astype(float)
    cast = lambda v: float(np.array(v).astype(np.dtype(dtype)))
    fillv = float("nan") if (isinstance(fill, float) and math.isnan(fill)) else cast(fill)
    exp, known = expected_raster(gspecs, [cast(v) for v in vals_list], t, f, fillv)
    if not known.all():
        ctx.dc("cells_on_outline_or_near_linear_geometry")
    bad = known & ~_eqnan(got, exp)
    if bad.any():
        i, j = (int(x) for x in np.argwhere(bad)[0])
        ctx.violate("cell_centre_rule", "cell_centre_rule", observed={"cell": [i, j], "value": float(got[i, j]), "n_bad": int(bad.sum())}, expected=float(exp[i, j]), spec=spec)
        return
    # closed form for a single box inside the axis
    if len(gspecs) == 1 and gspecs[0]["type"] == "BoundingBox":
        c = gspecs[0]["coordinates"]
        if t[0] <= c[0] <= t[-1] and f[0] <= c[1] <= f[-1]:
            ctx.mon("rasterize.box_closed_form")
            i0, i1, j0, j1 = _idx(t, c[0]), _idx(t, c[2]), _idx(f, c[1]), _idx(f, c[3])
            want = np.full(got.shape, fillv)
            want[i0:i1, j0:j1] = cast(vals_list[0])
            if not _eqnan(got, want).all():
                ctx.violate("box_bins", "box_bins", observed={"differs_at": np.argwhere(~_eqnan(got, want))[:4].tolist()},
                            expected={"time_bins": [i0, i1], "freq_bins": [j0, j1]}, spec=spec)
    # the same objects again: nothing remembered from the first call may matter, also not after an in-place edit
    if ctx.evaluations % 3 == 0 and gs:
        try:
            again = O.rasterize(gs, arr, **kw)
            if names:
                again = again.rename({names[0]: "time", names[1]: "frequency"})
            ctx.mon("rasterize.repeat")
            if not _eqnan(again.transpose("time", "frequency").data.astype(float), got).all():
                ctx.violate("repeat_call_differs", "repeat_call_differs", observed="second call on the same objects differs", spec=spec)
            # the caller owns the returned raster (and may hand the inputs over as tuples): it paints over it in place,
            # then rasterises fresh, equal geometries on a fresh, equal template
            if scribble.scribble(again):
                kw2 = dict(kw, values=tuple(values) if isinstance(values, list) else values)
                fresh = O.rasterize(tuple(geoms.build(s_) for s_ in gspecs), _template(tspec), **kw2)
                if names:
                    fresh = fresh.rename({names[0]: "time", names[1]: "frequency"})
                ctx.mon("rasterize.repeat_after_result_edit")
                if not _eqnan(fresh.transpose("time", "frequency").data.astype(float), got).all():
                    ctx.violate("repeat_call_differs", "repeat_call_differs:after_caller_edited_earlier_result", observed="raster differs from the first one", spec=spec)
                if not (np.array_equal(np.asarray(arr.coords[names[0] if names else "time"].data), t) and np.array_equal(np.asarray(arr.coords[names[1] if names else "frequency"].data), f)):
                    ctx.note("editing_the_result_changed_the_template_axes")
            k = ctx.rng.randrange(len(gs))
            if gspecs[k]["type"] in geoms.AREAL:
                geoms.edit_in_place(gs[k], ctx.rng)
                gspecs2 = list(gspecs)
                gspecs2[k] = geoms.to_spec(gs[k])
                res3 = O.rasterize(gs, arr, **kw)
                if names:
                    res3 = res3.rename({names[0]: "time", names[1]: "frequency"})
                got3 = res3.transpose("time", "frequency").data.astype(float)
                exp3, known3 = expected_raster(gspecs2, [cast(v) for v in vals_list], t, f, fillv)
                bad3 = known3 & ~_eqnan(got3, exp3)
                if bad3.any():
                    i, j = (int(x) for x in np.argwhere(bad3)[0])
                    ctx.violate("cell_centre_rule", "cell_centre_rule:after_in_place_edit", observed={"cell": [i, j], "value": float(got3[i, j])}, expected=float(exp3[i, j]),
                                spec=dict(spec, edited={"index": k, "to": gspecs2[k]}))
                gs[k] = geoms.build(gspecs[k], how="dict")
        except Exception as e:
            ctx.violate_exc("raises", f"raises_on_repeat:{type(e).__name__}", e, spec=spec)
    # all_touched only ever adds cells
    if all_touched_check and any(_eqnan(np.array([cast(v)], dtype=float), np.array([fillv], dtype=float))[0] for v in vals_list):
        # a geometry painted with the fill value erases cells: "marked" is then not monotone in all_touched
        ctx.note("all_touched_not_judged:a_value_equals_fill")
        all_touched_check = False
    if all_touched_check:
        try:
            res2 = O.rasterize(gs, arr, all_touched=True, **kw)
            if names:
                res2 = res2.rename({names[0]: "time", names[1]: "frequency"})
        except Exception as e:
            ctx.violate_exc("raises", f"raises:all_touched:{type(e).__name__}", e, spec=spec)
            return
        ctx.mon("rasterize.all_touched")
        got2 = res2.transpose("time", "frequency").data.astype(float)
        marked1 = ~_eqnan(got, np.full(got.shape, fillv))
        marked2 = ~_eqnan(got2, np.full(got.shape, fillv))
        lost = marked1 & ~marked2
        if lost.any():
            # which geometry owned the lost cells? (re-rasterise each geometry alone)
            owners = set()
            for gk, sk in zip(gs, gspecs):
                try:
                    one = O.rasterize([gk], arr, values=1, fill=0, dtype=np.float32, **({"xdim": names[0], "ydim": names[1]} if names else {}))
                    if names:
                        one = one.rename({names[0]: "time", names[1]: "frequency"})
                    one = one.transpose("time", "frequency").data
                    if (one[lost] != 0).any():
                        owners.add(sk["type"])
                except Exception:
                    owners.add("?")
            key = "all_touched_superset"
            if owners and owners <= set(LINEAR):
                key = "all_touched_superset:linear_geometry"
            ctx.violate("all_touched_superset", key, observed={"lost_cells": np.argwhere(lost)[:4].tolist(), "owners": sorted(owners)}, expected="all_touched=True marks a superset", spec=spec)


def _axis(rng, n, kind, start, step):
    if kind == "integer":      # whole seconds / bin numbers as integers (the template decides the dtype)
        k = rng.choice([1, 1, 2, 100])
        return [int(start) + i * k for i in range(n)]
    if kind == "regular":
        return [start + i * step for i in range(n)]
    vals = [start]
    for _ in range(n - 1):
        vals.append(vals[-1] + step * rng.uniform(0.3, 2.5))
    return vals


def _geom_on_template(rng, typ, t, f):
    """A geometry placed relative to the template: inside / partly outside / beyond."""
    t_lo, t_hi = t[0], t[-1] + (t[-1] - t[-2] if len(t) > 1 else 1.0)
    f_lo, f_hi = f[0], f[-1] + (f[-1] - f[-2] if len(f) > 1 else 1.0)
    where = rng.choice(["inside", "inside", "on_coords", "partly", "cover", "beyond"])
    W, H = t_hi - t_lo, f_hi - f_lo
    if where == "on_coords":
        a, b = sorted(rng.sample(range(len(t)), 2)) if len(t) > 1 else (0, 0)
        c, d = sorted(rng.sample(range(len(f)), 2)) if len(f) > 1 else (0, 0)
        box = (t[a], t[b] if b > a else t[a] + W / 2, f[c], f[d] if d > c else f[c] + H / 2)
    elif where == "inside":
        a = t_lo + rng.random() * W * 0.6; c = f_lo + rng.random() * H * 0.6
        box = (a, a + rng.uniform(0.1, 0.9) * (t[-1] - a) + 1e-3 * W, c, c + rng.uniform(0.1, 0.9) * (f[-1] - c) + 1e-3 * H)
    elif where == "partly":
        a = max(t_lo - rng.random() * W * 0.3, 0.0); c = max(f_lo - rng.random() * H * 0.3, 0.0)
        box = (a, a + W * rng.uniform(0.3, 1.2), c, c + H * rng.uniform(0.3, 1.2))
    elif where == "cover":
        box = (max(t_lo - W, 0.0), t_hi + W, max(f_lo - H, 0.0), f_hi + H)
    else:
        box = (t_hi + W, t_hi + 2 * W, f_lo, f_hi)
    box = (box[0], max(box[1], box[0] + 1e-6), box[2], min(max(box[3], box[2] + 1e-6), MAXF))
    return where, geoms.geom_in_box(rng, typ, *box)


def run(ctx):
    rng = ctx.rng
    from rv.props import concurrent_jobs

    concurrent_jobs.run_some(ctx, "C20")        # the same calls from a thread pool (rv/core/threads.py)
    ctx.must_monitors.append("concurrent_calls")
    ctx.rule = ("(template axes + dimension order, geometry list, values, fill, dtype); templates 1x1..40x25 square and non-square, regular and irregular axes; "
                "non-trivial = non-square template or >= 2 geometries; distinct = distinct case spec")
    ctx.assumptions += ["exact cell rule judged for areal geometries (BoundingBox, TimeInterval, Polygon, MultiPolygon); cells whose centre lies within 1e-9 of the index-space outline, "
                        "and cells within 1.5 bins of a point/line geometry, are don't-care",
                        "closed-form box rule judged only when the box starts inside [first, last] coordinate"]
    ctx.must_monitors += ["rasterize.calls", "rasterize.result", "rasterize.box_closed_form", "rasterize.all_touched"]
    ctx.must_reach += ["geometry/operations.py::rasterize"]

    # directed: non-square (time, frequency) template; line all_touched
    tspec = {"time": [0.0, 1.0, 2.0, 3.0, 4.0], "freq": [0.0, 100.0, 200.0], "order": "tf"}
    g = [{"type": "BoundingBox", "coordinates": [1.0, 100.0, 3.0, 200.0]}]
    ctx.case(("directed", "tf", "nonsquare", "BoundingBox"), {"template": tspec, "geoms": g})
    judge(ctx, tspec, g, 1, 0, "float32")
    tspec2 = {"time": [float(i) for i in range(8)], "freq": [100.0 * i for i in range(8)], "order": "tf"}
    g2 = [{"type": "BoundingBox", "coordinates": [1.0, 100.0, 3.0, 200.0]}, {"type": "BoundingBox", "coordinates": [2.0, 100.0, 5.0, 600.0]}]
    ctx.case(("directed", "tf", "square", "overwrite"), {"template": tspec2, "geoms": g2, "values": [1, 2]})
    judge(ctx, tspec2, g2, [1, 2], 0, "float32")
    ctx.case(("directed", "value_mismatch"), {"template": tspec2, "geoms": g2, "values": [1]}, nontrivial=False)
    judge(ctx, tspec2, g2, [1], 0, "float32")
    ctx.case(("directed", "value_mismatch"), {"template": tspec2, "geoms": g2, "values": [1, 2, 3]}, nontrivial=False)
    judge(ctx, tspec2, g2, [1, 2, 3], 0, "float32")

    for _ in range(ctx.scale(1200, 3000)):
        nt = rng.choice([1, 2, 3, 5, 8, 13, 25, 40]); nf = rng.choice([1, 2, 3, 5, 8, 13, 25])
        if rng.random() < 0.25:
            nf = nt
        order = rng.choice(["tf", "ft", "tf", "ft", "ctf", "ftc"])
        t = _axis(rng, nt, rng.choice(["regular", "regular", "irregular", "integer"]), rng.choice([0.0, 0.5, 10.0]), rng.choice([1.0, 0.1, 0.01, 256 / 44100]))
        f = _axis(rng, nf, rng.choice(["regular", "regular", "irregular", "integer"]), rng.choice([0.0, 0.0, 1000.0]), rng.choice([125.0, 1000.0, 86.1328125]))
        tspec = {"time": t, "freq": f, "order": order, "content_seed": rng.getrandbits(20), "nan_content": rng.random() < 0.1}
        if rng.random() < 0.3:
            tspec["step_attrs"] = rng.choice(["consistent", "stale"])
        if rng.random() < 0.3:
            tspec["range_attrs"] = rng.choice(["consistent", "stale"])
        if rng.random() < 0.15:
            tspec["names"] = rng.choice([["t", "f"], ["x", "y"], ["frequency", "time"]])   # the last one swaps the usual names on purpose
        ng = rng.choice([1, 1, 2, 3, 3, 5])
        pool = rng.choice([["BoundingBox"], list(geoms.AREAL), list(geoms.AREAL), geoms.TYPES])
        if rng.random() < 0.02:
            # a whole clip's worth of annotations burnt in one call; a long, narrow template
            ng = rng.choice([16, 17, 33, 130, 257])
            pool = list(geoms.AREAL)
        if rng.random() < 0.02:
            nt, nf = rng.choice([(257, 3), (1025, 2), (2, 513), (300, 129)])
            t = _axis(rng, nt, "regular", 0.0, rng.choice([0.01, 256 / 44100]))
            f = _axis(rng, nf, "regular", 0.0, rng.choice([125.0, 86.1328125]))
            tspec.update(time=t, freq=f)
        gspecs, wheres = [], []
        for _ in range(ng):
            w, gsp = _geom_on_template(rng, rng.choice(pool), t, f)
            gspecs.append(gsp); wheres.append(w)
        if ng >= 3 and rng.random() < 0.35:
            # the same geometry listed again later (a call annotated twice): it is painted again, over whatever came between
            gspecs[-1] = gspecs[rng.randrange(ng - 2)]
        if rng.random() < 0.3:
            # a geometry of ANOTHER type with the same coordinates payload / the same shape in the same call (a contour and
            # its nodes, a ring as outline and as polygon, a point and an interval): each is burnt as what IT is
            tw = geoms.lookalikes(rng.choice(gspecs))
            if not tw or rng.random() < 0.5:
                # (areal types have few look-alikes: start from a line / point and add its areal twin)
                _, base = _geom_on_template(rng, rng.choice(["LineString", "LineString", "MultiLineString", "Point", "TimeStamp"]), t, f)
                tw = [x for x in geoms.lookalikes(base) if x["type"] in geoms.AREAL] or geoms.lookalikes(base)
                if tw:
                    gspecs.append(base)
                    ng += 1
            if tw:
                gspecs.insert(rng.randrange(len(gspecs) + 1), rng.choice(tw))
                ng += 1
        dtype = rng.choice(["float32", "float64", "uint8", "int16", "float32"])
        fill = rng.choice([0, 0, -1, float("nan")])
        if dtype == "uint8" and (fill == -1 or fill != fill):
            fill = 0
        if dtype == "int16" and fill != fill:
            fill = -1
        values = rng.choice(["scalar", "list", "list"]) if ng > 1 else rng.choice(["scalar", "list"])
        vals = rng.choice([1, 3, 7]) if values == "scalar" else [(k % 250) + 1 for k in range(ng)]      # (representable in every template dtype used)
        if isinstance(vals, list) and rng.random() < 0.35:
            # values are the caller's: they may repeat, and one of them may coincide with the fill value (an "eraser")
            pool_v = [v for v in (fill, fill, vals[0], 0, 2, 5) if v == v or dtype.startswith("float")]
            vals = [rng.choice(pool_v + [v]) for v in vals]
        if rng.random() < 0.04 and isinstance(vals, list):
            vals = vals + [9]
        sq = "square" if nt == nf else "nonsquare"
        types = "+".join(sorted({g["type"] for g in gspecs}))
        ctx.case((order, sq, types if len(types) < 40 else "many", dtype), {"template": tspec, "geoms": gspecs, "values": vals, "fill": "nan" if fill != fill else fill, "dtype": dtype},
                 nontrivial=(nt != nf or ng >= 2))
        judge(ctx, tspec, gspecs, vals, fill, dtype)
        if len(t) >= 3 and len(f) >= 3 and rng.random() < 0.25 and all(isinstance(x, float) for x in list(t) + list(f)):
            # straight afterwards: the same geometries on a TWIN template -- same sizes, same first and last coordinate on
            # both axes, other spacing in between (a log-spaced frequency axis, unevenly spaced frames)
            twin = dict(tspec)
            warp = lambda ax: [ax[0] + (ax[-1] - ax[0]) * ((i / (len(ax) - 1)) ** 2) for i in range(len(ax))]
            twin["time"], twin["freq"] = (warp(t) if rng.random() < 0.7 else list(t)), warp(f)
            twin.pop("step_attrs", None); twin.pop("range_attrs", None)
            ctx.case((order, sq, "twin_template", dtype), {"template": twin, "geoms": gspecs, "values": vals, "fill": "nan" if fill != fill else fill, "dtype": dtype, "after_same_geometries_on": tspec})
            judge(ctx, twin, gspecs, vals, fill, dtype, after=tspec)


def replay(ctx, w):
    s = w["spec"]
    ctx.case("replay", s)
    fill = float("nan") if s.get("fill") == "nan" else s.get("fill", 0)
    if s.get("after_same_geometries_on"):
        judge(ctx, s["after_same_geometries_on"], s["geoms"], s.get("values", 1), fill, s.get("dtype", "float32"))
    judge(ctx, s["template"], s["geoms"], s.get("values", 1), fill, s.get("dtype", "float32"), after=s.get("after_same_geometries_on"))
