"""C16 — range dimensions and coordinate lookup are exact."""

from __future__ import annotations

import math
from fractions import Fraction as F

import numpy as np

from rv.core import ctx as _ctx
from rv.core import calling, instrument, scribble
from rv.core.tolerances import RANGE_STEP_TOL

ANCHORS = ("arrays/dimensions.py", "arrays/operations.py")
THOROUGH_SHARDS = 10
AMBIENT_TESTS = ["tests/test_array", "tests/test_arrays", "tests/test_geometry", "tests/test_audio"]

_installed = False


def _fin(*xs):
    return all(isinstance(x, (int, float, np.floating, np.integer)) and math.isfinite(float(x)) for x in xs)


# ------------------------------------------------------------------ monitors
def _post_create_range_dim(name, start, stop, step, size, dtype, result):
    c = _ctx.CURRENT
    if c is None:
        return True
    if np.dtype(dtype) != np.float64:
        # other coordinate precisions: the lattice checks below assume doubles, but the recorded step is the requested
        # step whatever the precision of the coordinates
        if np.dtype(dtype).kind == "f" and step is not None and _fin(start, stop, step) and step > 0 and stop >= start:
            c.mon("create_range_dim.step_attr_other_dtypes")
            got = result.attrs.get("step")
            if got is None or float(got) != float(step):
                c.violate("range:step_attr", "range:step_attr:non_float64_coordinates", observed=None if got is None else float(got), expected=float(step),
                          spec={"kind": "range", "start": float(start), "stop": float(stop), "step": step, "size": size, "dtype": str(np.dtype(dtype))})
        c.ood("range:dtype_not_float64")
        return True
    st = step
    if st is None:
        if size is None or size <= 0:
            c.ood("range:no_step")
            return True
        st = (stop - start) / size
    if not _fin(start, stop, st) or st <= 0 or stop < start:
        c.ood("range:domain")
        return True
    c.mon("create_range_dim.post")
    spec = {"kind": "range", "start": float(start), "stop": float(stop), "step": step, "size": size}
    coords = np.asarray(result.data)
    n = len(coords)
    if result.attrs.get("step") is None or float(result.attrs["step"]) != float(st):
        c.violate("range:step_attr", "range:step_attr", observed=result.attrs.get("step"), expected=float(st), spec=spec)
    q = (F(float(stop)) - F(float(start))) / F(float(st))
    rq = round(q)
    whole = abs(q - rq) <= F(1, 10 ** 9)
    if size is not None and step is None:
        whole, rq = True, int(size)
    if whole:
        if n != rq:
            c.violate("range:count", "range:count", observed=n, expected=int(rq), spec=spec)
    else:
        c.note("partial_last_bin")
        if n not in (math.floor(q), math.ceil(q)):
            c.violate("range:count", "range:count_partial", observed=n, expected=[math.floor(q), math.ceil(q)], spec=spec)
    if n:
        if coords[0] != start:
            c.violate("range:first", "range:first", observed=float(coords[0]), expected=float(start), spec=spec)
        if coords[0] < start or not coords[-1] < stop:
            c.violate("range:inside", "range:inside", observed=[float(coords[0]), float(coords[-1])], expected=[float(start), float(stop)], spec=spec)
        ideal = float(start) + np.arange(n) * float(st)
        dev = np.abs(coords - ideal).max() / float(st)
        if dev > RANGE_STEP_TOL:
            c.violate("range:lattice", "range:lattice", observed={"max_dev_in_steps": float(dev)}, expected=f"<= {RANGE_STEP_TOL}", spec=spec)
        else:
            # a principled, much tighter bound: an implementation that derives its increment from (start + step) - start
            # (numpy.arange) is off by at most one ulp at the magnitude of the range per element index; one that
            # multiplies directly is off by a couple of ulps.  Anything beyond (i + 6) ulps is not rounding.
            ulp = float(np.spacing(max(abs(float(start)), abs(float(stop)), abs(float(start) + float(st)))))
            tol = np.minimum((np.arange(n) + 6) * ulp, RANGE_STEP_TOL * float(st))
            bad = np.abs(coords - ideal) > tol
            if bad.any():
                i = int(np.argmax(bad))
                c.violate("range:lattice", "range:lattice:beyond_rounding", observed={"i": i, "coord": float(coords[i]), "dev_in_ulps": float(abs(coords[i] - ideal[i]) / ulp)},
                          expected={"start+i*step": float(ideal[i]), "allowed_ulps": i + 6}, spec=spec)
        if n > 1 and not np.all(np.diff(coords) > 0):
            c.violate("range:increasing", "range:increasing", observed="non-increasing", spec=spec)
    return True


def _coords_of(arr, dim):
    return np.asarray(arr.coords[dim].data)


def _post_get_coord_index(arr, dim, value, raise_error, result):
    c = _ctx.CURRENT
    if c is None:
        return True
    coords = _coords_of(arr, dim)
    if coords.ndim != 1 or len(coords) == 0 or coords.dtype.kind not in "fiu" or not _fin(value):
        c.ood("index:domain")
        return True
    if len(coords) > 1 and not np.all(np.diff(coords) > 0):
        c.ood("index:not_increasing")
        return True
    c.mon("get_coord_index.post")
    n = len(coords)
    spec = {"kind": "index", "coords": _cspec(coords), "value": float(value), "raise_error": bool(raise_error)}
    i = result
    if coords[0] <= value <= coords[-1]:
        ok = isinstance(i, (int, np.integer)) and 0 <= i < n and coords[i] <= value and (i == n - 1 or value < coords[i + 1])
        if not ok:
            want = int(np.searchsorted(coords, value, side="right") - 1)
            c.violate("index:in_range", "index:in_range", observed=i, expected=want, spec=spec)
    elif value < coords[0]:
        if raise_error:
            c.violate("index:no_raise_below", "index:no_raise_below", observed=i, expected="KeyError", spec=spec)
        elif i != 0:
            c.violate("index:clamp_below", "index:clamp_below", observed=i, expected=0, spec=spec)
    else:
        if raise_error:
            c.violate("index:no_raise_above", "index:no_raise_above", observed=i, expected="KeyError", spec=spec)
        elif i not in (n - 1, n):
            c.violate("index:clamp_above", "index:clamp_above", observed=i, expected=[n - 1, n], spec=spec)
    return True


def _cspec(coords):
    coords = np.asarray(coords)
    if len(coords) <= 12:
        return [float(x) for x in coords]
    return {"n": int(len(coords)), "first": float(coords[0]), "second": float(coords[1]), "last": float(coords[-1])}


def install():
    global _installed
    if _installed:
        return
    instrument.ensure("soundevent.arrays.dimensions", "create_range_dim", _post_create_range_dim)
    instrument.ensure("soundevent.arrays.dimensions", "get_coord_index", _post_get_coord_index)

    def make(orig):
        def set_value_at_pos(array, value, **query):
            before = np.array(array.data, copy=True)
            out = orig(array, value, **query)
            try:
                _post_set_value(array, value, query, before, out)
            except Exception as exc:
                c = _ctx.CURRENT
                if c is not None:
                    c.inconclusive_because(f"monitor_error:set_value_at_pos:{type(exc).__name__}:{exc}"[:200])
            return out

        return set_value_at_pos

    instrument.attach("soundevent.arrays.operations", "set_value_at_pos", make)
    _installed = True


def _post_set_value(array, value, query, before, out):
    c = _ctx.CURRENT
    if c is None:
        return
    idx = [slice(None)] * array.ndim
    for dim, v in query.items():
        coords = _coords_of(array, dim)
        if len(coords) > 1 and not np.all(np.diff(coords) > 0):
            c.ood("set:not_increasing")
            return
        ax = list(array.dims).index(dim)
        idx[ax] = int(np.searchsorted(coords, v, side="right") - 1)
    c.mon("set_value_at_pos.post")
    spec = {"kind": "set", "shape": list(before.shape), "dims": list(array.dims), "query": {k: float(v) for k, v in query.items()},
            "value": np.asarray(value).tolist()}
    expect = before.copy()
    expect[tuple(idx)] = value
    after = np.asarray(out.data)
    same = (after == expect) | (np.isnan(after) & np.isnan(expect))
    if after.shape != expect.shape or not same.all():
        bad = np.argwhere(~same)[:5].tolist() if after.shape == expect.shape else "shape"
        c.violate("set:exact_cell", "set:exact_cell", observed={"differs_at": bad}, expected={"index": [str(i) for i in idx]}, spec=spec)
    if out is not array and not np.shares_memory(out.data, array.data):
        c.note("set:returned_copy")


# ------------------------------------------------------------------ workload
def _try(ctx, fn, spec, *a, expect_exc=None, **k):
    try:
        r = fn(*a, **k)
    except Exception as e:
        if expect_exc is not None and isinstance(e, expect_exc):
            return "raised", e
        return "error", e
    return "ok", r


def judge_range(ctx, start, stop, step, size, via):
    from soundevent.arrays import dimensions as D

    spec = {"kind": "range", "start": start, "stop": stop, "step": step, "size": size, "via": via}
    def call():
        if via == "range32":
            return D.create_range_dim("x", start, stop, step=step, dtype=np.float32)
        if via == "range":
            return D.create_range_dim("x", start, stop, step=step, size=size)
        elif via == "time":
            return D.create_time_range(start, stop, step=step)
        elif via == "time_sr":
            return D.create_time_range(start, stop, samplerate=round(1 / step))
        elif via == "time_both":
            # both given: the documentation says the step takes precedence
            both = D.create_time_range(start, stop, step=step, samplerate=[2.0, 0.5, 3.0][int(start * 4) % 3] / step)   # a rate that disagrees with the step by a small factor
            ref = D.create_time_range(start, stop, step=step)
            ctx.mon("range.step_and_samplerate")
            if len(both) != len(ref) or not np.array_equal(np.asarray(both.data), np.asarray(ref.data)) or both.attrs.get("step") != ref.attrs.get("step"):
                ctx.violate("range:step_precedence", "range:step_precedence", observed={"n": len(both), "step": both.attrs.get("step")}, expected={"n": len(ref), "step": ref.attrs.get("step")}, spec=spec)
            return both
        return D.create_frequency_range(start, stop, step)

    try:
        r1 = call()
        if via in ("time", "time_sr", "freq", "time_both"):
            # the wrappers promise the same axis as the general constructor, for the bounds THEY were given (the
            # ambient monitor only sees what they pass on)
            ctx.mon("range.wrapper_bounds")
            co = np.asarray(r1.data)
            if len(co) and (co[0] != start or not co[-1] < stop):
                ctx.violate("range:inside", f"range:wrapper_bounds:{via}", observed=[float(co[0]), float(co[-1])], expected=[float(start), float(stop)], spec=spec)
            if via == "time_sr":
                ref = np.asarray(D.create_time_range(start, stop, step=step).data)
                if len(ref) != len(co) or not np.array_equal(ref, co):
                    ctx.violate("range:lattice", "range:samplerate_form_differs_from_step_form", observed={"n": len(co), "first": float(co[0]) if len(co) else None},
                                expected={"n": len(ref), "first": float(ref[0]) if len(ref) else None}, spec=spec)
        if ctx.every(spec, 3) and scribble.scribble(r1):
            # the caller shifts / overwrites the coordinate it was given (``time += clip_start``), then asks for the
            # same range again: the second answer is judged by the same monitor
            ctx.mon("repeat_after_result_edit")
            call()
    except Exception as e:
        q = (F(stop) - F(start)) / F(step if step else 1)
        key = "range:raises"
        if q < 1 and isinstance(e, IndexError):
            key = "range:raises:empty_range_indexerror"
        ctx.violate_exc("range:raises", key, e, spec=spec)


def judge_index(ctx, coords, value, raise_error, attr_step=None):
    import xarray as xr

    from soundevent.arrays import dimensions as D

    cvar = xr.Variable("x", coords, attrs={"step": attr_step}) if attr_step is not None else coords
    # the queried dimension is one of several, in any position (a spectrogram has three): only its own length matters
    layout = int(abs(value) * 7 + len(coords)) % 4
    if layout == 0:
        arr = xr.DataArray(np.zeros(len(coords)), dims=["x"], coords={"x": cvar})
    elif layout == 1:
        arr = xr.DataArray(np.zeros((len(coords), 3)), dims=["x", "channel"], coords={"x": cvar, "channel": [0, 1, 2]})
    elif layout == 2:
        arr = xr.DataArray(np.zeros((5, len(coords))), dims=["other", "x"], coords={"x": cvar})
    else:
        arr = xr.DataArray(np.zeros((2, len(coords), 4)), dims=["a", "x", "b"], coords={"x": cvar, "b": [0.0, 0.5, 1.0, 1.5]})
    spec = {"kind": "index", "coords": _cspec(coords), "value": value, "raise_error": raise_error, "dtype": str(np.asarray(coords).dtype)}
    inside = coords[0] <= value <= coords[-1]
    ctx.mon("get_coord_index.exceptions")
    if ctx.every(spec, 4):
        calling.agree(ctx, "get_coord_index", instrument.original(D.get_coord_index), dict(arr=arr, dim="x", value=value, raise_error=raise_error), spec,
                      variants={"boolish_flag": {"raise_error": calling.boolish(ctx.rng, raise_error)}, "numlike_value": {"value": calling.numlike(ctx.rng, value)}})
    try:
        D.get_coord_index(arr, "x", value, raise_error=raise_error)
    except KeyError as e:
        if inside or not raise_error:
            ctx.violate_exc("index:spurious_keyerror", "index:spurious_keyerror", e, spec=spec)
    except Exception as e:
        ctx.violate_exc("index:raises", f"index:raises:{type(e).__name__}", e, spec=spec)


def judge_set(ctx, shape, which, vals, value_kind, seed):
    import xarray as xr

    from soundevent.arrays import operations as O

    r = np.random.default_rng(seed)
    dims = ["time", "frequency", "channel"][: len(shape)]
    coords = {}
    for d, n in zip(dims, shape):
        st = {"time": 0.1, "frequency": 125.0, "channel": 1.0}[d]
        coords[d] = 0.5 * (d == "time") + np.arange(n) * st
    layout = ["plain", "coords_reversed", "transposed", "bare_channel"][seed % 4]
    if layout == "coords_reversed":
        arr = xr.DataArray(r.normal(size=shape), dims=dims, coords={d: coords[d] for d in reversed(dims)})
    elif layout == "bare_channel" and "channel" in dims:
        arr = xr.DataArray(r.normal(size=shape), dims=dims, coords={d: coords[d] for d in dims if d != "channel"})
        which = [d for d in which if d != "channel"] or [dims[0]]
        vals = vals[: len(which)] or [0.5]
    else:
        arr = xr.DataArray(r.normal(size=shape), dims=dims, coords=coords)
    if layout == "transposed" and len(dims) > 1:
        arr = arr.transpose(*reversed(dims))
        shape = tuple(reversed(shape))
        dims = list(reversed(dims))
    query = {}
    for d, u in zip(which, vals):
        c = coords[d]
        query[d] = float(c[0] + u * (c[-1] - c[0]))
    rest = [n for d, n in zip(dims, shape) if d not in query]
    if value_kind == "scalar" or not rest:
        value = 7.5
    elif value_kind == "vector":
        value = list(np.arange(rest[-1], dtype=float) + 100)
        if len(rest) > 1:
            value = np.arange(int(np.prod(rest)), dtype=float).reshape(rest) + 100
    elif value_kind == "tuple":
        value = tuple(float(x) for x in np.arange(rest[-1]) + 50) if len(rest) == 1 else 3.25
    else:
        # the value as other code hands it over; each of these is accepted by the slice assignment the function is
        # documented to perform (numpy broadcasting: leading axes of length one are dropped, labels are ignored)
        base = np.arange(int(np.prod(rest)), dtype=float).reshape(rest) + 200 if rest else np.array(7.5)
        if value_kind == "leading_singleton_axes":
            value = base.reshape((1,) * (1 + seed % 2) + base.shape)
        elif value_kind == "zero_d_array":
            value = np.array(4.75)
        elif value_kind == "masked_array":
            value = np.ma.masked_array(base, mask=(np.arange(base.size).reshape(base.shape) % 2 == 0)) if base.ndim else np.ma.masked_array([6.5], mask=[True])
        elif value_kind == "dataarray_own_coords":
            rd = [d for d in dims if d not in query]
            value = xr.DataArray(base, dims=rd, coords={d: 1000.0 + np.arange(n) for d, n in zip(rd, base.shape)}) if base.ndim else xr.DataArray(7.5)
        elif value_kind == "dataarray_other_dim_names":
            value = xr.DataArray(base)           # dim_0, dim_1, ...
        else:
            value = base.astype(np.float32)
    # templates are not always float64: integer label rasters, boolean masks, float32 spectrograms. The write is the slice
    # assignment numpy performs on the array AS IT IS (the reference in the monitor applies the same assignment to a copy)
    adt = [None, None, "int64", "float32", "bool", "int16"][(seed >> 3) % 6]
    if adt is not None and value_kind in ("scalar", "vector", "tuple", "zero_d_array", "float32_array", "leading_singleton_axes"):
        arr = arr.copy(data=(arr.data * 10).astype(adt))
    spec = {"kind": "set", "shape": list(shape), "which": list(which), "vals": list(vals), "value_kind": value_kind, "seed": seed}
    try:
        O.set_value_at_pos(arr, value, **query)
    except Exception as e:
        ctx.violate_exc("set:raises", f"set:raises:{type(e).__name__}", e, spec=spec)


STARTS = [0.0, 0.5, 3.0, 1000.0, -1.5, 0.123, 212.275]      # the last two are not multiples of any step below (axis phase)
STEPS = [1.0, 0.5, 0.1, 0.01, 1 / 3, 1 / 44100, 7.3, 0.25, 1 / 22050, 1 / 48000, 0.003]


def run(ctx):
    install()
    rng = ctx.rng
    from rv.props import concurrent_jobs

    concurrent_jobs.run_some(ctx, "C16")        # the same calls from a thread pool (rv/core/threads.py)
    ctx.must_monitors.append("concurrent_calls")
    ctx.rule = ("range: (start, stop, step|size, constructor); index: (coordinates, query, raise flag); set: (shape, query, value); "
                "non-trivial = non-integer step / query not on a coordinate / >= 2-D array; distinct = distinct case spec")
    ctx.assumptions += [
        "float64 coordinates; finite values; strictly increasing axes",
        "when (stop-start)/step is not whole the statement fixes no count: floor and ceil both accepted",
        "coordinates may deviate from start+i*step by 1 % of a step (numpy arange increment rounding)",
        "clamping above the range may return n-1 or n (statement does not say which)",
    ]
    ctx.must_monitors += ["create_range_dim.post", "get_coord_index.post", "set_value_at_pos.post", "get_coord_index.exceptions"]
    ctx.must_reach += ["arrays/dimensions.py::create_range_dim", "arrays/dimensions.py::create_time_range",
                       "arrays/dimensions.py::create_frequency_range", "arrays/dimensions.py::get_coord_index",
                       "arrays/operations.py::set_value_at_pos"]

    # ---- ranges
    ns = [0, 1, 2, 3, 7, 10, 100, 1000, 4410] + ([44100, 100000] if ctx.thorough else [44100])
    k = 0
    for start in STARTS:
        for step in STEPS:
            for n in ns:
                for frac in (0.0, 0.5, 0.3, 0.9):
                    k += 1
                    if k % ctx.nshards != ctx.shard:
                        continue
                    stop = start + (n + frac) * step
                    via = rng.choice(["range", "range", "time", "freq", "time_both"] + (["range32"] if n <= 1000 else []))
                    if via == "time" and abs(1 / step - round(1 / step)) < 1e-9 and rng.random() < 0.5:
                        via = "time_sr"
                    ctx.case(("range", via, "whole" if frac == 0 else "partial", "n0" if n == 0 else "n1" if n == 1 else "n>1"),
                             {"kind": "range", "start": start, "stop": stop, "step": step, "size": None, "via": via},
                             nontrivial=step != int(step))
                    judge_range(ctx, start, stop, step if via != "time_sr" else 1 / round(1 / step), None, via)
    # long axes that do not start at zero (a clip minutes into a recording): the increment rounding of arange has
    # accumulated over 1e5 .. 1e6 steps by the time the end of the range is reached
    if ctx.shard == 0 or ctx.thorough:
        for start in [60.5, 7.3, 1000.7, 212.275, 3600.1]:
            for step, n in [(1 / 16000, 44100), (1 / 8000, 1000000), (0.001, 157248), (1 / 44100, 441000), (1 / 8000, 157248)]:
                if ctx.thorough and rng.random() < 0.5:
                    continue
                stop = start + n * step
                via = rng.choice(["range", "time", "freq", "time_sr"])
                ctx.case(("range", via, "long_far_from_zero"), {"kind": "range", "start": start, "stop": stop, "step": step, "size": None, "via": via}, nontrivial=True)
                judge_range(ctx, start, stop, step if via != "time_sr" else 1 / round(1 / step), None, via)
    for _ in range(ctx.scale(300, 1500)):
        start = rng.choice(STARTS + [rng.uniform(0, 100)])
        size = rng.choice([1, 2, 3, 10, 127, 128, 1000, rng.randint(1, 3000)])
        stop = start + rng.choice([1.0, 0.1, 2.5, rng.uniform(0.01, 50)])
        ctx.case(("range", "size"), {"kind": "range", "start": start, "stop": stop, "step": None, "size": size, "via": "range"})
        judge_range(ctx, start, stop, None, size, "range")

    # ---- coordinate lookup
    for _ in range(ctx.scale(2500, 15000)):
        kind = rng.choice(["regular", "regular", "irregular", "single", "integer"])
        attr_step = None
        if kind == "regular":
            start = rng.choice(STARTS); step = rng.choice(STEPS); n = rng.choice([1, 2, 3, 5, 10, 50, 500])
            coords = start + np.arange(n) * step
            if rng.random() < 0.6:
                attr_step = step if rng.random() < 0.8 else step / 2   # stale attribute after a decimation
        elif kind == "integer":
            # integer-typed coordinates (channel numbers, bin indices, whole seconds), also below zero; queries stay floats
            n = rng.choice([2, 5, 10, 11])
            coords = (rng.choice([-5, -12, 0, 3]) + np.arange(n) * rng.choice([1, 1, 2, 5])).astype(rng.choice([np.int64, np.int32]))
        elif kind == "irregular":
            n = rng.randint(2, 12)
            coords = np.cumsum([rng.uniform(0.01, 3) for _ in range(n)]) + rng.uniform(0, 10)
        else:
            coords = np.array([rng.uniform(0, 10)])
        n = len(coords)
        i = rng.randrange(n)
        where = rng.choice(["on", "between", "first", "last", "below", "above", "just_below_coord", "just_above_coord", "just_above_last", "just_below_first"])
        if where == "on":
            v = float(coords[i])
        elif where == "between":
            v = float(coords[i] + rng.random() * ((coords[i + 1] - coords[i]) if i + 1 < n else 0.0))
        elif where == "first":
            v = float(coords[0])
        elif where == "last":
            v = float(coords[-1])
        elif where == "below":
            v = float(coords[0] - rng.uniform(1e-9, 5))
        elif where == "above":
            v = float(coords[-1] + rng.uniform(1e-9, 5))
        elif where == "just_below_coord":
            v = float(np.nextafter(float(coords[i]), -np.inf))
        elif where == "just_above_coord":
            v = float(np.nextafter(float(coords[i]), np.inf))
        elif where == "just_above_last":
            v = float(np.nextafter(float(coords[-1]), np.inf))
        else:
            v = float(np.nextafter(float(coords[0]), -np.inf))
        raise_error = rng.random() < 0.5
        ctx.case(("index", kind, where, "raise" if raise_error else "clamp"),
                 {"kind": "index", "coords": _cspec(coords), "value": v, "raise_error": raise_error}, nontrivial=where != "on")
        judge_index(ctx, coords, v, raise_error, attr_step)

    # ---- every coordinate of axes built by the library itself (these carry the `step` attribute)
    import xarray as xr

    from soundevent.arrays import dimensions as D

    sweep_n = [100, 1000] if not ctx.thorough else [100, 1000, 5000]
    k = 0
    for start in STARTS:
        for step in STEPS:
            for n in sweep_n:
                k += 1
                if k % ctx.nshards != ctx.shard:
                    continue
                try:
                    var = D.create_range_dim("x", start, start + (n + 0.5) * step, step=step)
                except Exception:
                    continue
                coords = np.asarray(var.data)
                arr = xr.DataArray(np.zeros(len(coords)), dims=["x"], coords={"x": var})
                ctx.case(("index_sweep", "range_axis_with_step_attr", "frac" if step != int(step) else "int"),
                         {"kind": "index_sweep", "start": start, "step": step, "n": n}, nontrivial=step != int(step))
                for i in range(len(coords)):
                    for v in (float(coords[i]), float((coords[i] + coords[i + 1]) / 2) if i + 1 < len(coords) else float(coords[i])):
                        try:
                            D.get_coord_index(arr, "x", v)
                        except Exception as e:
                            ctx.violate_exc("index:raises", f"index:raises:{type(e).__name__}", e, spec={"kind": "index_sweep", "start": start, "step": step, "n": n, "value": v})
                            break
    ctx.exhaustive_subspaces.append("get_coord_index at every coordinate and every midpoint of create_range_dim axes: 4 starts x 11 steps x lengths " + str(sweep_n))

    # ---- lookups on axes with a history: extended, cropped or adjusted arrays are ordinary inputs too
    from soundevent.arrays import operations as AO

    for _ in range(ctx.scale(150, 600)):
        start = rng.choice([0.0, 0.5, 10.0]); step = rng.choice([1.0, 0.5, 0.1, 0.01]); n = rng.choice([5, 10, 40])
        var = D.create_range_dim("time", start, start + (n + 0.5) * step, step=step)
        arr = xr.DataArray(np.arange(len(var), dtype=float), dims=["time"], coords={"time": var})
        hist = rng.choice(["extend", "extend_crop", "adjust", "crop", "extend_width"])
        try:
            if hist in ("extend", "extend_crop"):
                arr2 = AO.extend_dim(arr, "time", start=start - rng.choice([2, 3.5]) * step if start >= 4 * step else None, stop=float(var.data[-1]) + rng.choice([2, 3.5]) * step)
                if hist == "extend_crop":
                    c2 = np.asarray(arr2.time.data)
                    arr2 = AO.crop_dim(arr2, "time", start=float(c2[1]), stop=float(c2[-3]))
            elif hist == "adjust":
                arr2 = AO.adjust_dim_range(arr, "time", start=start - 2 * step if start >= 2 * step else None, stop=float(var.data[n // 2]))
            elif hist == "crop":
                arr2 = AO.crop_dim(arr, "time", start=float(var.data[1]), stop=float(var.data[-2]))
            else:
                arr2 = AO.adjust_dim_width(arr, "time", n + 5)
        except Exception:
            ctx.note("history_step_failed")
            continue
        c2 = np.asarray(arr2.time.data)
        if len(c2) < 2:
            continue
        ctx.case(("index_after", hist), {"kind": "index_after", "start": start, "step": step, "n": n, "history": hist}, nontrivial=True)
        for v in (float(c2[0]), float(c2[-1]), float(c2[0]) - 0.5 * step, float(c2[0]) - 1e-6, float(c2[-1]) + 0.5 * step, float(c2[-1]) + 3 * step,
                  float(c2[len(c2) // 2]), float((c2[0] + c2[1]) / 2)):
            for raise_error in (True, False):
                inside = c2[0] <= v <= c2[-1]
                ctx.mon("get_coord_index.exceptions")
                try:
                    D.get_coord_index(arr2, "time", v, raise_error=raise_error)
                except KeyError as e:
                    if inside or not raise_error:
                        ctx.violate_exc("index:spurious_keyerror", "index:spurious_keyerror", e, spec={"kind": "index_after", "history": hist, "coords": _cspec(c2), "value": v})
                except Exception as e:
                    ctx.violate_exc("index:raises", f"index:raises:{type(e).__name__}", e, spec={"kind": "index_after", "history": hist, "coords": _cspec(c2), "value": v})

    # ---- set_value_at_pos
    for _ in range(ctx.scale(400, 3000)):
        nd = rng.randint(1, 3)
        shape = tuple(rng.randint(1, 7) for _ in range(nd))
        dims = ["time", "frequency", "channel"][:nd]
        which = rng.sample(dims, rng.randint(1, nd))
        vals = [rng.choice([0.0, 1.0, rng.random(), rng.random()]) for _ in which]
        vk = rng.choice(["scalar", "vector", "tuple", "leading_singleton_axes", "zero_d_array", "masked_array", "dataarray_own_coords", "dataarray_other_dim_names", "float32_array"])
        seed = rng.getrandbits(30)
        ctx.case(("set", nd, len(which), vk), {"kind": "set", "shape": shape, "which": which, "vals": vals, "value_kind": vk, "seed": seed},
                 nontrivial=nd >= 2)
        judge_set(ctx, shape, which, vals, vk, seed)


def replay(ctx, w):
    install()
    s = w["spec"]
    ctx.case("replay", s)
    if s["kind"] == "range":
        judge_range(ctx, s["start"], s["stop"], s["step"], s.get("size"), s.get("via", "range"))
    elif s["kind"] == "index":
        c = s["coords"]
        coords = np.array(c) if isinstance(c, list) else c["first"] + np.arange(c["n"]) * (c["second"] - c["first"])
        coords = coords.astype(s.get("dtype", "float64"))
        judge_index(ctx, coords, s["value"], s["raise_error"])
    elif s["kind"] == "set" and "which" in s:
        judge_set(ctx, tuple(s["shape"]), s["which"], s["vals"], s["value_kind"], s["seed"])
