"""C19 — tag encoding projects faithfully onto the vocabulary; equal objects hash equally."""

from __future__ import annotations

import copy
import itertools

import numpy as np

from rv.core import calling
from rv.core.tolerances import F32_TOL
from rv.gen import graphs

ANCHORS = ("evaluation/encoding.py", "data/terms.py", "data/tags.py", "data/features.py", "data/notes.py", "data/sound_events.py",
           "data/sound_event_annotations.py", "data/sound_event_predictions.py", "data/clip_predictions.py")
THOROUGH_SHARDS = 8


def universe():
    """7 tags: 5 vocabulary candidates + 2 outsiders, including terms that share a name but not a
    label, and terms that share a label but not a name (hash collisions / near misses)."""
    from soundevent import data

    t_sp = data.term_from_key("species")
    t_ct = data.term_from_key("call_type")
    # same name as species, different label
    t_sp2 = data.Term(name=t_sp.name, label="Species (alt label)", definition=t_sp.definition)
    # same label as call_type, different name
    # (a term that sets the two fields reachable only through their aliases, as ontology exports do)
    t_ct2 = data.Term(name="custom:call_type", label=t_ct.label, definition="other", type="class", range="xsd:string", scope_note="n")
    # values that are different strings but look alike: precomposed vs combining accent (NFC / NFD), other case
    A, A_nfd, a_low = "Cr\u00f3talo", "Cro\u0301talo", "cr\u00f3talo"
    U = [
        data.Tag(term=t_sp, value=A), data.Tag(term=t_sp, value=A_nfd), data.Tag(term=t_ct, value=A),
        data.Tag(term=t_sp2, value=A), data.Tag(term=t_ct2, value=A),
        data.Tag(term=t_sp, value=a_low), data.Tag(term=data.term_from_key("other"), value=A),
    ]
    return U


def big_universe(n=700):
    """A class list of hundreds of tags over a handful of terms; values repeat across terms (the same value under two
    terms are two tags)."""
    from soundevent import data

    terms = [data.term_from_key(k) for k in ("species", "call_type", "other")] + [data.Term(name=f"big:{k}", label=f"Big{k}", definition="d") for k in range(3)]
    return [data.Tag(term=terms[i % len(terms)], value=f"v{i // 2}") for i in range(n)]


def _spec(vocab_idx, list_idx, scores=None, universe_kind=None):
    s = {"kind": "encode", "vocab": list(vocab_idx), "tags": list(list_idx), "scores": scores}
    if universe_kind:
        s["universe"] = universe_kind
    return s


def judge_encoding(ctx, U, vocab_idx, list_idx, scores):
    from soundevent import data
    from soundevent.evaluation import encoding as E

    vocab = [U[i] for i in vocab_idx]
    tags = [U[i] for i in list_idx]
    spec = _spec(vocab_idx, list_idx, scores, "big" if len(U) > 50 else None)
    try:
        enc = E.create_tag_encoder(vocab)
    except Exception as e:
        ctx.violate_exc("encoder_raises", f"encoder_raises:{type(e).__name__}", e, spec=spec)
        return
    ctx.mon("encoder")
    # encoder: encode(t) == i <=> t == vocab[i]
    for k, t in enumerate(U):
        want = next((i for i, v in enumerate(vocab) if v == t), None)
        got = enc.encode(copy.deepcopy(t))
        if got != want:
            ctx.violate("encode_iff_equal", "encode_iff_equal", observed={"tag": k, "got": got}, expected=want, spec=spec)
            return
        if want is not None and enc.decode(got) != t:
            ctx.violate("decode_encode_identity", "decode_encode_identity", observed={"tag": k}, spec=spec)
            return
    if enc.num_classes != len(vocab):
        ctx.violate("num_classes", "num_classes", observed=enc.num_classes, expected=len(vocab), spec=spec)
    in_vocab = [next((i for i, v in enumerate(vocab) if v == t), None) for t in tags]
    # classification: first in-vocabulary tag
    ctx.mon("classification")
    want = next((i for i in in_vocab if i is not None), None)
    got = E.classification_encoding(tags, enc)
    if got != want:
        ctx.violate("classification_first_in_vocab", "classification_first_in_vocab", observed=got, expected=want, spec=spec)
    # multilabel: indicator vector
    ctx.mon("multilabel")
    want_v = np.zeros(len(vocab))
    for i in in_vocab:
        if i is not None:
            want_v[i] = 1
    got_v = np.asarray(E.multilabel_encoding(tags, enc))
    if got_v.shape != want_v.shape or not np.array_equal(got_v, want_v):
        ctx.violate("multilabel_indicator", "multilabel_indicator", observed=got_v.tolist(), expected=want_v.tolist(), spec=spec)
    # prediction: score vector (repeated tags carry the same score -> unambiguous)
    ctx.mon("prediction")
    sc = scores or [0.5] * len(tags)
    by_tag = {}
    ptags = []
    for i, t, s in zip(list_idx, tags, sc):
        s = by_tag.setdefault(i, s)
        ptags.append(data.PredictedTag(tag=t, score=s))
    want_p = np.zeros(len(vocab))
    for pos, i in enumerate(in_vocab):
        if i is not None:
            want_p[i] = by_tag[list_idx[pos]]
    got_p = np.asarray(E.prediction_encoding(ptags, enc))
    if got_p.shape != want_p.shape or np.abs(got_p - want_p).max(initial=0) > F32_TOL:
        ctx.violate("prediction_scores", "prediction_scores", observed=got_p.tolist(), expected=want_p.tolist(), spec=spec)
    if ctx.every(spec, 5):
        calling.agree(ctx, "classification_encoding", E.classification_encoding, dict(tags=tags, encoder=enc), spec, variants={"tuple_of_tags": {"tags": tuple(tags)}})
        calling.agree(ctx, "multilabel_encoding", E.multilabel_encoding, dict(tags=tags, encoder=enc), spec, same=lambda x, y: np.array_equal(np.asarray(x), np.asarray(y)),
                      variants={"tuple_of_tags": {"tags": tuple(tags)}})
        calling.agree(ctx, "prediction_encoding", E.prediction_encoding, dict(tags=ptags, encoder=enc), spec, same=lambda x, y: np.array_equal(np.asarray(x), np.asarray(y)),
                      variants={"tuple_of_tags": {"tags": tuple(ptags)}})
    # the caller owns the returned vectors: it edits them in place, builds an encoder for another vocabulary in between,
    # and encodes equal lists again with the first encoder
    if ctx.every(spec, 4):
        try:
            gv, gp = E.multilabel_encoding(tags, enc), E.prediction_encoding(ptags, enc)
            for arr in (gv, gp):
                if isinstance(arr, np.ndarray) and arr.flags.writeable and arr.size:
                    arr[...] = 9
            other = E.create_tag_encoder(list(reversed(U[:3])))
            other.encode(U[0]); E.multilabel_encoding(U[:2], other)
            ctx.mon("repeat_after_result_edit")
            gv2 = np.asarray(E.multilabel_encoding(copy.deepcopy(tags), enc))
            gp2 = np.asarray(E.prediction_encoding(copy.deepcopy(ptags), enc))
            if not np.array_equal(gv2, want_v) or gp2.shape != want_p.shape or np.abs(gp2 - want_p).max(initial=0) > F32_TOL:
                ctx.violate("repeat_call_differs", "repeat_call_differs:after_caller_edited_earlier_result", observed=[gv2.tolist(), gp2.tolist()], expected=[want_v.tolist(), want_p.tolist()], spec=spec)
            if E.classification_encoding(copy.deepcopy(tags), enc) != want:
                ctx.violate("repeat_call_differs", "repeat_call_differs:classification", observed="differs", spec=spec)
        except Exception as e:
            ctx.violate_exc("encoder_raises", f"encoder_raises_on_repeat:{type(e).__name__}", e, spec=spec)
    # out-of-vocabulary entries never influence any result
    ctx.mon("oov_irrelevant")
    keep = [k for k, i in enumerate(in_vocab) if i is not None]
    tags2 = [tags[k] for k in keep]
    ptags2 = [ptags[k] for k in keep]
    if E.classification_encoding(tags2, enc) != got:
        ctx.violate("oov_irrelevant", "oov_irrelevant:classification", observed=E.classification_encoding(tags2, enc), expected=got, spec=spec)
    if not np.array_equal(np.asarray(E.multilabel_encoding(tags2, enc)), got_v):
        ctx.violate("oov_irrelevant", "oov_irrelevant:multilabel", spec=spec)
    if not np.array_equal(np.asarray(E.prediction_encoding(ptags2, enc)), got_p):
        ctx.violate("oov_irrelevant", "oov_irrelevant:prediction", spec=spec)


def judge_encoder_isolation(ctx, seed):
    """Two callers with EQUAL vocabularies made of their own objects (one deep-copied / re-loaded the other's list).
    The first caller later edits its own tags in place (renames a class); the second caller's encoder -- created from
    its own, untouched vocabulary -- still decodes / encodes that vocabulary."""
    import random

    from soundevent import data
    from soundevent.evaluation import encoding as E

    rng = random.Random(seed)
    terms = [data.Term(name=f"iso:{k}", label=f"K{k}", definition="d") for k in range(2)]
    n = rng.randint(1, 4)
    mk = lambda: [data.Tag(term=terms[k % 2], value=f"v{seed % 97}_{k}") for k in range(n)]
    how = rng.choice(["deepcopy", "rebuilt", "pickle"])
    vocab_a = mk()
    vocab_b = copy.deepcopy(vocab_a) if how == "deepcopy" else mk() if how == "rebuilt" else _pickled(vocab_a)
    snapshot = [(t.term.name, t.value) for t in vocab_b]
    spec = {"kind": "encoder_isolation", "seed": seed, "how": how, "n": n}
    ctx.mon("encoder_isolation")
    try:
        enc_a = E.create_tag_encoder(vocab_a)
        enc_a.encode(vocab_a[0])
        enc_b = E.create_tag_encoder(vocab_b)
        j = rng.randrange(n)
        try:
            vocab_a[j].value = "renamed-by-the-other-caller"
        except Exception:
            ctx.note("tags_immutable")
            return
        for i in range(n):
            d = enc_b.decode(i)
            got = None if d is None else (d.term.name, d.value)
            if got != snapshot[i]:
                ctx.violate("decode_encode_identity", "decode_encode_identity:other_callers_equal_vocabulary_edited", observed=got, expected=snapshot[i], spec=spec)
                return
            if enc_b.encode(vocab_b[i]) != i or enc_b.encode(data.Tag(term=terms[i % 2], value=snapshot[i][1])) != i:
                ctx.violate("encode_iff_equal", "encode_iff_equal:other_callers_equal_vocabulary_edited", observed=enc_b.encode(vocab_b[i]), expected=i, spec=spec)
                return
        if enc_b.encode(vocab_a[j]) is not None and vocab_a[j] not in vocab_b:
            ctx.violate("encode_iff_equal", "encode_iff_equal:renamed_tag_still_encoded", observed=enc_b.encode(vocab_a[j]), expected=None, spec=spec)
    except Exception as e:
        ctx.violate_exc("raises", f"raises:encoder_isolation:{type(e).__name__}", e, spec=spec)


# ------------------------------------------------------------------ hashing
def _rebuild(obj):
    """Equal object built through another construction path: the constructor, recursively,
    with each field passed under its validation alias (Term.type_of_term is 'type')."""
    from pydantic import BaseModel

    if isinstance(obj, BaseModel):
        kw = {}
        for name, fi in type(obj).model_fields.items():
            kw[fi.alias or name] = _rebuild(getattr(obj, name))
        for k, v in (obj.model_extra or {}).items():
            kw[k] = v
        return type(obj)(**kw)
    if isinstance(obj, (list, tuple)):
        return [_rebuild(v) for v in obj]
    return obj


def _pickled(obj):
    import pickle

    return pickle.loads(pickle.dumps(obj))


def hash_pairs(ctx, seed):
    """Yield (label, a, b) with a == b expected for the first variants and near-misses after."""
    from soundevent import data

    g = graphs.GraphGen(seed, p_opt=0.7, p_share=0.5, size=2)
    clip = g.clip()
    objs = {
        "Term": g.term("species"),
        "Tag": g.tag(fresh=True),
        "Feature": data.Feature(term=g.term("snr"), value=g.rng.choice([1, 1.0, 0.0, -0.0, 2.5, 10 ** 6])),
        "Note": g.note(),
        "SoundEvent": g.sound_event(clip),
        "SoundEventAnnotation": g.se_annotation(clip),
        "SoundEventPrediction": g.se_prediction(clip),
        "ClipPrediction": g.clip_prediction(clip),
    }
    for name, a in objs.items():
        yield name, "deepcopy", a, copy.deepcopy(a)
        yield name, "model_copy", a, a.model_copy()
        yield name, "constructor_rebuild", a, _rebuild(a)
        yield name, "pickle", a, _pickled(a)
        yield name, "deep_model_copy", a, a.model_copy(deep=True)
    # int vs float, +-0.0
    t = g.term("snr")
    yield "Feature", "int_vs_float", data.Feature(term=t, value=1), data.Feature(term=t, value=1.0)
    yield "Feature", "signed_zero", data.Feature(term=t, value=0.0), data.Feature(term=t, value=-0.0)
    # alias-built terms
    base = dict(name="x:y", label="Y", definition="d")
    yield "Term", "alias_type", data.Term(**base, type_of_term="class"), data.Term.model_validate({**base, "type_of_term": "class"})
    yield "Term", "extra_field", data.Term(**base, extra1="q"), data.Term(**base, extra1="q")
    # extra attributes are compared as an unordered mapping: insertion order must not matter for the hash
    ta, tb = data.Term(**base, source="field guide", version="2"), data.Term(**base, version="2", source="field guide")
    yield "Term", "extras_in_other_order", ta, tb
    yield "Term", "extras_int_vs_float", data.Term(**base, rank=1), data.Term(**base, rank=1.0)
    yield "Tag", "term_extras_in_other_order", data.Tag(term=ta, value="v"), data.Tag(term=tb, value="v")
    yield "Feature", "term_extras_in_other_order", data.Feature(term=ta, value=0.5), data.Feature(term=tb, value=0.5)
    # hash first, modify afterwards: the modified object must hash like a freshly built equal object
    tg = data.Tag(term=t, value="dog")
    hash(tg); {tg}
    yield "Tag", "model_copy_update_after_hash", tg.model_copy(update={"value": "cat"}), data.Tag(term=t, value="cat")
    tg2 = data.Tag(term=t, value="dog")
    hash(tg2)
    tg2.value = "cat"
    yield "Tag", "assign_after_hash", tg2, data.Tag(term=t, value="cat")
    ft = data.Feature(term=t, value=1.0)
    hash(ft)
    yield "Feature", "model_copy_update_after_hash", ft.model_copy(update={"value": 2.0}), data.Feature(term=t, value=2.0)
    ft2 = data.Feature(term=t, value=1.0)
    hash(ft2)
    ft2.value = 2.0
    yield "Feature", "assign_after_hash", ft2, data.Feature(term=t, value=2.0)
    for name in ("Note", "SoundEvent", "SoundEventAnnotation", "SoundEventPrediction", "ClipPrediction"):
        # a twin: every field equal except the identifier (whether the library calls the two equal is its business)
        yield name, "twin_with_other_uuid", objs[name], objs[name].model_copy(update={"uuid": g.uid()})
    for name in ("Note", "SoundEvent", "SoundEventAnnotation", "SoundEventPrediction", "ClipPrediction"):
        a = objs[name]
        hash(a)
        nu = g.uid()
        yield name, "model_copy_new_uuid_after_hash", a.model_copy(update={"uuid": nu}), _rebuild(a.model_copy(update={"uuid": nu}))
    # near misses (may or may not be equal; the check only demands a == b => hash equal)
    yield "Term", "near_label", data.Term(**base), data.Term(name="x:y", label="Y2", definition="d")
    yield "Tag", "near_value", data.Tag(term=t, value="a"), data.Tag(term=t, value="A")
    n = objs["Note"]
    yield "Note", "near_message", n, n.model_copy(update={"message": n.message + "!"})
    se = objs["SoundEvent"]
    yield "SoundEvent", "near_features", se, se.model_copy(update={"features": []})
    yield from neighbour_pairs(objs, g.rng)
    yield from same_number_pairs(objs, g.rng)
    # the same INSTANT written in two time zones (an annotation tool that stores local time with its offset, a server that
    # stores UTC): Python calls the two aware datetimes equal
    import datetime as _dt

    for name, a in objs.items():
        for field in ("created_on", "date"):
            if field in type(a).model_fields and isinstance(getattr(a, field, None), _dt.datetime):
                t0 = _dt.datetime(2024, 3, 9, 12, 30, 15, 250000, tzinfo=_dt.timezone.utc)
                for off in (_dt.timedelta(hours=1), _dt.timedelta(hours=-7), _dt.timedelta(hours=5, minutes=30)):
                    try:
                        pa, pb = _with(a, (field,), t0), _with(a, (field,), t0.astimezone(_dt.timezone(off)))
                    except Exception:
                        continue
                    yield name, f"same_instant_other_zone:{field}", pa, pb


# ------------------------------------------------------- nearest neighbours of an object
def _leaves(obj, path=(), depth=0):
    import datetime

    from pydantic import BaseModel

    if depth > 4:
        return
    if isinstance(obj, BaseModel):
        for name in type(obj).model_fields:
            yield from _leaves(getattr(obj, name, None), path + (name,), depth + 1)
    elif isinstance(obj, list):
        for i, v in enumerate(obj[:3]):
            yield from _leaves(v, path + (i,), depth + 1)
    elif isinstance(obj, bool) or obj is None:
        return
    elif isinstance(obj, (int, float, str, datetime.datetime)):
        yield path, obj


def _near(v):
    """Values a hair away from ``v``: what two computations of 'the same' number, or two spellings of 'the same'
    text, produce.  Whether the library calls them equal is its business; equal objects must then hash equally."""
    import datetime
    import math
    import unicodedata

    if isinstance(v, float) and math.isfinite(v):
        out = [math.nextafter(v, math.inf), math.nextafter(v, -math.inf), v * (1 + 2.0 ** -40) if v else 5e-324, v + 1e-10 * (abs(v) or 1.0), v * (1 + 1e-7) if v else 1e-12]
    elif isinstance(v, int):
        out = [math.nextafter(float(v), math.inf), float(v) * (1 + 1e-10) if v else 1e-300]
    elif isinstance(v, str):
        out = [v + " ", v.upper(), v.lower(), unicodedata.normalize("NFD", v), unicodedata.normalize("NFKC", v), v + "\u200b", " " + v]
    elif isinstance(v, datetime.datetime):
        out = [v + datetime.timedelta(microseconds=1), v.replace(microsecond=0)]
    else:
        out = []
    return [x for x in out if x != v or type(x) is not type(v)]


def _with(obj, path, value):
    b = copy.deepcopy(obj)
    node = b
    for k in path[:-1]:
        node = node[k] if isinstance(k, int) else getattr(node, k)
    if isinstance(path[-1], int):
        node[path[-1]] = value
    else:
        try:
            setattr(node, path[-1], value)
        except Exception:
            object.__setattr__(node, path[-1], value)
    return b


def neighbour_pairs(objs, rng, cap=24):
    for name, a in objs.items():
        leaves = list(_leaves(a))
        rng.shuffle(leaves)
        n = 0
        for path, v in leaves:
            for x in _near(v):
                if n >= cap:
                    break
                try:
                    b = _with(a, path, x)
                except Exception:
                    continue
                n += 1
                yield name, "neighbour:" + ".".join(str(p) for p in path if not isinstance(p, int)) + ":" + type(v).__name__, a, b


def same_number_pairs(objs, rng, cap=10):
    """The SAME number held two ways at one leaf of two otherwise identical objects: 0.0 / -0.0 (``round(-0.0004, 3)``,
    ``-1 * 0.0``), 1.0 / 1 (a whole float against an int assigned or passed through unvalidated).  Python calls the
    numbers equal; whether the objects are equal is the library's business, equal objects must then hash equally."""
    for name, a in objs.items():
        leaves = [(p, v) for p, v in _leaves(a) if isinstance(v, (int, float)) and not isinstance(v, bool)]
        rng.shuffle(leaves)
        n = 0
        for path, v in leaves:
            in_coordinates = "coordinates" in path
            # 0.0 is a valid time and a valid frequency; only the first point / lower bounds are replaced so that the
            # geometry stays ordered
            reps = []
            if not in_coordinates or all(i == 0 for i in path[path.index("coordinates") + 1:-1]) and path[-1] in (0, 1):
                reps.append(("signed_zero", 0.0, -0.0))
            if not in_coordinates:
                reps.append(("whole_float_vs_int", 1.0, 1))
            for label, x, y in reps:
                if n >= cap:
                    break
                try:
                    pa, pb = _with(a, path, x), _with(a, path, y)
                except Exception:
                    continue
                n += 1
                yield name, f"same_number:{label}:" + ".".join(str(p) for p in path if not isinstance(p, int)), pa, pb


_CHILD = r"""
import pickle, sys
sys.path[:0] = {path!r}
from rv.props import c19
from rv.gen import graphs
objs = c19._objects(graphs.GraphGen({seed}, p_opt=0.7, p_share=0.5, size=2))
for o in objs.values():
    hash(o); {{o}}                      # the objects have been used as set members / dict keys before being stored
pickle.dump(objs, open({out!r}, "wb"))
"""


def _objects(g):
    from soundevent import data

    clip = g.clip()
    return {
        "Term": g.term("species"), "Tag": g.tag(fresh=True), "Feature": data.Feature(term=g.term("snr"), value=2.5), "Note": g.note(),
        "SoundEvent": g.sound_event(clip), "SoundEventAnnotation": g.se_annotation(clip), "SoundEventPrediction": g.se_prediction(clip),
        "ClipPrediction": g.clip_prediction(clip),
    }


def cross_process_pairs(ctx, seed):
    """Objects hashed and pickled by ANOTHER interpreter (its own string-hash seed), loaded here, against equal objects
    built here: a dataset cache written by an earlier run, a multiprocessing worker's result."""
    import os
    import pickle
    import subprocess
    import sys
    import tempfile

    out = tempfile.mktemp(suffix=".pkl")
    env = dict(os.environ, PYTHONHASHSEED="4321")
    try:
        r = subprocess.run([sys.executable, "-c", _CHILD.format(path=[p for p in sys.path if p], seed=seed, out=out)], env=env, capture_output=True, text=True, timeout=300)
        if r.returncode != 0:
            ctx.note("cross_process_child_failed")
            return
        loaded = pickle.load(open(out, "rb"))
    finally:
        if os.path.exists(out):
            os.remove(out)
    fresh = _objects(graphs.GraphGen(seed, p_opt=0.7, p_share=0.5, size=2))
    for name in fresh:
        ctx.mon("cross_process_pairs")
        yield name, "unpickled_from_another_interpreter", loaded[name], fresh[name]


def judge_hash(ctx, cls, how, a, b):
    spec = {"kind": "hash", "class": cls, "how": how}
    ctx.mon("hash_pairs")
    try:
        eq = a == b
    except Exception as e:
        ctx.violate_exc("eq_raises", f"eq_raises:{cls}", e, spec=spec)
        return
    if not eq:
        ctx.note("unequal_pair")
        return
    ctx.mon("equal_pairs")
    try:
        ha, hb = hash(a), hash(b)
    except Exception as e:
        ctx.violate_exc("hash_raises", f"hash_raises:{cls}", e, spec=spec)
        return
    if ha != hb:
        ctx.violate("equal_implies_equal_hash", f"equal_implies_equal_hash:{cls}", observed=[ha, hb], expected="equal hashes", spec=spec)
        return
    if {a: 1}.get(b) != 1 or b not in {a}:
        ctx.violate("dict_set_membership", f"dict_set_membership:{cls}", observed="lookup failed", spec=spec)


def run(ctx):
    rng = ctx.rng
    from rv.props import concurrent_jobs

    concurrent_jobs.run_some(ctx, "C19")        # the same calls from a thread pool (rv/core/threads.py)
    ctx.must_monitors.append("concurrent_calls")
    ctx.rule = ("encoding: (ordered vocabulary of distinct tags, tag list with repeats / out-of-vocabulary members); hashing: pairs of data objects built through different paths; "
                "non-trivial = list contains a repeat or an out-of-vocabulary tag; distinct = distinct case spec")
    ctx.assumptions += ["vocabulary tags pairwise distinct; repeated predicted tags carry the same score (otherwise 'the score' is ambiguous)", "float32 scores compared at 1e-6"]
    ctx.must_monitors += ["encoder", "classification", "multilabel", "prediction", "oov_irrelevant", "hash_pairs", "equal_pairs"]
    ctx.must_reach += ["evaluation/encoding.py::create_tag_encoder", "evaluation/encoding.py::classification_encoding",
                       "evaluation/encoding.py::multilabel_encoding", "evaluation/encoding.py::prediction_encoding",
                       "data/terms.py::Term.__hash__", "data/tags.py::Tag.__hash__", "data/features.py::Feature.__hash__", "data/notes.py::Note.__hash__",
                       "data/sound_events.py::SoundEvent.__hash__", "data/sound_event_annotations.py::SoundEventAnnotation.__hash__",
                       "data/sound_event_predictions.py::SoundEventPrediction.__hash__", "data/clip_predictions.py::ClipPrediction.__hash__"]
    U = universe()
    vmax = 4 if ctx.thorough else 3
    vocabs = [v for k in range(0, vmax + 1) for v in itertools.permutations(range(5), k)]
    lists = [l for k in range(0, 4) for l in itertools.product(range(7), repeat=k)]
    ctx.exhaustive_subspaces.append(f"ordered vocabularies of <= {vmax} distinct tags over a 5-tag universe ({len(vocabs)}) x tag lists of length <= 3 over a 7-tag universe ({len(lists)})")
    k = 0
    for v in vocabs:
        for l in lists:
            k += 1
            if k % ctx.nshards != ctx.shard:
                continue
            scores = [[0.25, 0.5, 1.0][(i + len(v)) % 3] for i in range(len(l))]
            nontrivial = len(set(l)) < len(l) or any(i not in v for i in l)
            ctx.case(("encode", len(v), len(l), "repeat" if len(set(l)) < len(l) else "norepeat", "oov" if any(i not in v for i in l) else "inv"),
                     _spec(v, l, scores), nontrivial=nontrivial)
            judge_encoding(ctx, U, v, l, scores)
    # longer random lists
    for _ in range(ctx.scale(300, 3000)):
        v = rng.sample(range(5), rng.randint(0, 5))
        l = [rng.randrange(7) for _ in range(rng.randint(4, 12))]
        scores = [rng.choice([0.0, 1.0, rng.random()]) for _ in l]
        ctx.case(("encode_long", len(v)), _spec(v, l, scores))
        judge_encoding(ctx, U, v, l, scores)
    # class lists of 16 / 17 / 255 / 256 / 257 / 600 tags (a regional species list), tag lists of hundreds
    UB = big_universe()
    for nv in (16, 17, 33, 255, 256, 257, 600):
        for _ in range(ctx.scale(1, 4)):
            v = rng.sample(range(len(UB)), nv)
            l = [rng.choice(v) if rng.random() < 0.7 else rng.randrange(len(UB)) for _ in range(rng.choice([3, 40, 300]))]
            scores = [rng.choice([0.0, 1.0, 0.5, 0.25]) for _ in l]
            ctx.case(("encode_large", nv), _spec(v, l, scores, "big"))
            judge_encoding(ctx, UB, v, l, scores)
    # a tag that EQUALS a vocabulary tag but was built differently must encode to its index
    from soundevent import data as _d
    from soundevent.evaluation import encoding as _E

    base = dict(name="x:y", label="Y", definition="d")
    va = _d.Tag(term=_d.Term(**base, source="s", version="2"), value="v")
    vb = _d.Tag(term=_d.Term(**base, version="2", source="s"), value="v")
    for variant, probe in (("extras_in_other_order", vb), ("deepcopy", copy.deepcopy(va)), ("pickle", _pickled(va))):
        ctx.case(("encode_equal_tag", variant), {"kind": "encode_equal_tag", "variant": variant})
        ctx.mon("encoder")
        if va == probe:
            enc = _E.create_tag_encoder([U[0], va])
            if enc.encode(probe) != 1 or _E.classification_encoding([probe], enc) != 1 or list(_E.multilabel_encoding([probe], enc)) != [0, 1]:
                ctx.violate("encode_iff_equal", f"encode_iff_equal:equal_tag_built_differently:{variant}", observed=enc.encode(probe), expected=1, spec={"kind": "encode_equal_tag", "variant": variant})

    for _ in range(ctx.scale(60, 400)):
        iseed = rng.getrandbits(32)
        ctx.case(("encoder_isolation",), {"kind": "encoder_isolation", "seed": iseed})
        judge_encoder_isolation(ctx, iseed)
    if ctx.shard == 0:
        for cseed in (7, 8):
            for cls, how, a, b in cross_process_pairs(ctx, cseed):
                ctx.case(("hash", cls, how), {"kind": "hash", "class": cls, "how": how, "seed": cseed})
                judge_hash(ctx, cls, how, a, b)
    # hash pairs
    for i in range(ctx.scale(25, 150)):
        seed = rng.getrandbits(32)
        for cls, how, a, b in hash_pairs(ctx, seed):
            ctx.case(("hash", cls, how), {"kind": "hash", "class": cls, "how": how, "seed": seed}, nontrivial=how not in ("deepcopy",))
            judge_hash(ctx, cls, how, a, b)


def replay(ctx, w):
    s = w["spec"]
    ctx.case("replay", s)
    if s["kind"] == "encoder_isolation":
        judge_encoder_isolation(ctx, s["seed"])
    elif s["kind"] == "encode":
        judge_encoding(ctx, big_universe() if s.get("universe") == "big" else universe(), s["vocab"], s["tags"], s["scores"])
    else:
        for i in range(50):
            for cls, how, a, b in hash_pairs(ctx, s.get("seed", i)):
                if cls == s["class"] and how == s["how"]:
                    judge_hash(ctx, cls, how, a, b)
            if "seed" in s:
                break
