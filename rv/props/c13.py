"""C13 — grouping returns the connected components of the similarity graph.

Events: the call log of the user-supplied comparison function (recorded by the
closure the workload passes in) and the returned sequences.  Oracle: offline,
over the call log and the result (union-find components).
"""

from __future__ import annotations

import itertools
import uuid

import numpy as np

from rv.core import scribble

ANCHORS = ("geometry/operations.py",)
THOROUGH_SHARDS = 8


def _events(n, rng):
    from soundevent import data

    # the property is about ANY list of sound events: they need not share a recording (cross-recording linking of
    # simultaneous events on several recorders is a use of this function), nor have features, nor be distinct in content
    recs = [data.Recording(path=f"r{k}.wav", duration=100.0, channels=1, samplerate=rng.choice([8000, 44100]), uuid=uuid.UUID(int=rng.getrandbits(128)))
            for k in range(rng.choice([1, 1, 2, 3]))]
    feats = [[], [], [data.Feature(term=data.term_from_key("duration"), value=0.5)]]
    geoms_ = [lambda i: data.TimeInterval(coordinates=[i, i + 0.5]), lambda i: None, lambda i: data.Point(coordinates=[i, 1000.0]),
              lambda i: data.TimeInterval(coordinates=[i, i + 0.5]), lambda i: data.BoundingBox(coordinates=[i, 10.0, i + 1.0, 20.0])]
    # a sound event may legally have no geometry: it is still an input event
    out = [
        data.SoundEvent(uuid=uuid.UUID(int=rng.getrandbits(128)), recording=rng.choice(recs), geometry=rng.choice(geoms_)(i if rng.random() < 0.8 else 0), features=rng.choice(feats))
        for i in range(n)
    ]
    if n >= 2 and rng.random() < 0.3:
        # the list may hold the same event more than once (a detection listed twice, an equal copy from another
        # file): positions are what is partitioned.  Equal copies (same uuid, equal content, distinct objects) are used,
        # so that the callback log can still tell positions apart.
        for _ in range(rng.choice([1, 1, 2])):
            i, j = rng.sample(range(n), 2)
            out[j] = out[i].model_copy()
    return out


def _components(n, edges):
    parent = list(range(n))

    def find(x):
        while parent[x] != x:
            parent[x] = parent[parent[x]]
            x = parent[x]
        return x

    for a, b in edges:
        ra, rb = find(a), find(b)
        if ra != rb:
            parent[max(ra, rb)] = min(ra, rb)
    comps = {}
    for i in range(n):
        comps.setdefault(find(i), []).append(i)
    return sorted(comps.values())


def judge(ctx, n, edges):
    """edges: list of [i, j] with i<j. The relation is symmetric."""
    seqs = _judge_once(ctx, n, edges)
    if seqs is not None and (n == 0 or ctx.every([n, edges], 3)):
        # the caller owns the returned list and sequences: it edits them in place (appends, reorders, drops members);
        # a later call on fresh, equal inputs is judged exactly as the first was
        try:
            acted = scribble.scribble(seqs) if isinstance(seqs, list) else 0
        except Exception:
            acted = 0
        if acted:
            ctx.mon("repeat_after_result_edit")
            _judge_once(ctx, n, edges, after_edit=True)


def _judge_once(ctx, n, edges, after_edit=False):
    from soundevent.geometry import operations as G

    spec = {"n": n, "edges": [list(e) for e in edges]}
    if after_edit:
        spec["history"] = "same call made before; its returned list was edited in place by the caller"
    evs = _events(n, ctx.rng)
    pos = {id(e): i for i, e in enumerate(evs)}
    eset = {frozenset(e) for e in edges}
    log = []

    style = (n + 3 * len(edges)) % 5

    def cmp(a, b):
        ia, ib = pos.get(id(a), -1), pos.get(id(b), -1)
        log.append((ia, ib))
        r = frozenset((ia, ib)) in eset
        # the answer in the forms a similarity function gives it: bool, numpy.bool_, an overlap fraction / a count
        # (used for its truth value), None for "no"
        if style == 1:
            return np.bool_(r)
        if style == 2:
            return 0.4 if r else 0.0
        if style == 3:
            return 2 if r else 0
        if style == 4:
            return np.float64(0.25) if r else None
        return r

    # the callable as callers have it: a plain function, one with further optional parameters, a functools.partial with
    # a bound keyword, a variadic function, a callable object, a bound method
    kind = (2 * n + len(edges)) % 7
    base_cmp = cmp
    if kind == 1:
        def cmp(a, b, max_gap=1.0, *, strict=False):
            return base_cmp(a, b)
    elif kind == 2:
        import functools

        def _with_gap(a, b, max_gap):
            return base_cmp(a, b)
        cmp = functools.partial(_with_gap, max_gap=2.0)
    elif kind == 3:
        def cmp(*pair):
            return base_cmp(*pair)
    elif kind == 4:
        class _Similar:
            threshold = 0.5

            def __call__(self, a, b, weight=None):
                return base_cmp(a, b)
        cmp = _Similar()
    elif kind == 5:
        class _Model:
            def similar(self, a, b):
                return base_cmp(a, b)
        cmp = _Model().similar
    elif kind == 6 and n <= 12:
        # a similarity that itself groups something (the syllables of the two calls) with the same function: re-entrant use
        inner = _events(3, ctx.rng)

        def cmp(a, b):
            r = base_cmp(a, b)
            G.group_sound_events(inner, lambda x, y: True)
            return r
    ctx.mon("comparison_callable_kinds")
    try:
        seqs = G.group_sound_events(tuple(evs) if (n + len(edges)) % 4 == 1 else evs, cmp)
    except Exception as e:
        ctx.violate_exc("raises", f"raises:{type(e).__name__}", e, spec=spec)
        return None
    if n >= 2 and not after_edit and ctx.evaluations % 2 == 0:
        # second call: the SAME event objects and the SAME callable object, but the relation it implements has
        # changed in the meantime (a threshold attribute was edited): the result must follow the new relation
        edges2 = [e for e in edges[1:]] if edges else [(0, n - 1)]
        eset.clear()
        eset.update(frozenset(e) for e in edges2)
        log2_start = len(log)
        try:
            seqs2 = G.group_sound_events(evs, cmp)
            ctx.mon("second_call_same_objects")
            got2 = sorted(sorted(pos.get(id(e), -1) for e in s2.sound_events) for s2 in seqs2)
            if got2 != _components(n, edges2):
                ctx.violate("components", "components:stale_result_on_second_call", observed=got2, expected=_components(n, edges2),
                            spec={"n": n, "edges": [list(e) for e in edges], "second_call_edges": [list(e) for e in edges2]})
            elif len(log) == log2_start and n >= 2:
                ctx.violate("components", "components:comparison_function_not_consulted_on_second_call", observed="0 calls", spec=spec)
        except Exception as e:
            ctx.violate_exc("raises", f"raises_on_second_call:{type(e).__name__}", e, spec=spec)
        eset.clear()
        eset.update(frozenset(e) for e in edges)
        del log[log2_start:]
    # ---- offline checker over the call log
    ctx.mon("call_log", len(log) or 1)
    for ia, ib in log:
        if ia < 0 or ib < 0:
            ctx.violate("cmp_on_foreign_object", "cmp_on_foreign_object", observed=[ia, ib], spec=spec)
            break
        if ia == ib:
            ctx.violate("cmp_on_same_event", "cmp_on_same_event", observed=[ia, ib], spec=spec)
            break
    # ---- result checker
    ctx.mon("result")
    if n == 0:
        if list(seqs) != []:
            ctx.violate("empty_input", "empty_input", observed=repr(seqs)[:200], expected=[], spec=spec)
        return seqs
    got = []
    for s in seqs:
        idx = [pos.get(id(e), -1) for e in s.sound_events]
        got.append(idx)
    flat = [i for g in got for i in g]
    if sorted(flat) != list(range(n)):
        ctx.violate("partition", "partition", observed=got, expected="each input event exactly once", spec=spec)
        return seqs
    if any(g != sorted(g) for g in got):
        ctx.violate("input_order", "input_order", observed=got, expected="input order inside each sequence", spec=spec)
    want = _components(n, edges)
    if sorted(sorted(g) for g in got) != want:
        ctx.violate("components", "components", observed=sorted(sorted(g) for g in got), expected=want, spec=spec)
    if any(len(g) == 0 for g in got):
        ctx.violate("empty_sequence", "empty_sequence", observed=got, spec=spec)
    uu = [s.uuid for s in seqs]
    if len(set(uu)) != len(uu):
        ctx.violate("sequence_ids_distinct", "sequence_ids_distinct", observed=[str(u) for u in uu], spec=spec)
    return seqs


def _nontrivial(n, edges):
    if not edges:
        return False
    comps = _components(n, edges)
    deg = {}
    for a, b in edges:
        deg[a] = deg.get(a, 0) + 1
        deg[b] = deg.get(b, 0) + 1
    return len(comps) >= 2 or any(d >= 2 for d in deg.values())


def run(ctx):
    rng = ctx.rng
    from rv.props import concurrent_jobs

    concurrent_jobs.run_some(ctx, "C13")        # the same calls from a thread pool (rv/core/threads.py)
    ctx.must_monitors.append("concurrent_calls")
    ctx.rule = ("labelled undirected graphs as edge lists over input positions; non-trivial = at least one edge and "
                "(>= 2 components or a path of length >= 2); distinct = distinct (n, edge set)")
    ctx.assumptions += ["comparison function is symmetric and deterministic", "sound events are identified by object identity at the callback boundary"]
    ctx.must_monitors += ["call_log", "result"]
    ctx.must_reach += ["geometry/operations.py::group_sound_events", "geometry/operations.py::_compute_similarity_matrix"]

    nmax = 6 if ctx.thorough else 5
    ctx.exhaustive_subspaces.append(f"all labelled graphs on n <= {nmax} nodes")
    k = 0
    for n in range(0, nmax + 1):
        allp = list(itertools.combinations(range(n), 2))
        for mask in range(1 << len(allp)):
            k += 1
            if k % ctx.nshards != ctx.shard:
                continue
            edges = [allp[i] for i in range(len(allp)) if mask >> i & 1]
            ctx.case(("exhaustive", n, len(_components(n, edges))), {"n": n, "edges": edges}, nontrivial=_nontrivial(n, edges))
            judge(ctx, n, edges)

    for _ in range(ctx.scale(150, 600)):
        n = rng.randint(7, 60)
        shape = rng.choice(["path", "star", "cliques", "forest", "sparse", "dense", "none", "reverse_path", "bipartite"])
        edges = set()
        if shape == "path":
            perm = list(range(n)); rng.shuffle(perm)
            m = rng.randint(2, n)
            edges = {tuple(sorted((perm[i], perm[i + 1]))) for i in range(m - 1)}
        elif shape == "reverse_path":
            # edges only from later to earlier positions in a chain that zig-zags
            order = list(range(n))[::-1]
            edges = {tuple(sorted((order[i], order[i + 2]))) for i in range(n - 2)}
        elif shape == "star":
            c = rng.randrange(n)
            edges = {tuple(sorted((c, j))) for j in rng.sample(range(n), rng.randint(1, n - 1)) if j != c}
        elif shape == "cliques":
            perm = list(range(n)); rng.shuffle(perm)
            i = 0
            while i < n:
                size = rng.randint(1, 6)
                grp = perm[i:i + size]
                edges |= {tuple(sorted(p)) for p in itertools.combinations(grp, 2)}
                i += size
        elif shape == "forest":
            for j in range(1, n):
                if rng.random() < 0.7:
                    edges.add(tuple(sorted((j, rng.randrange(j)))))
        elif shape == "bipartite":
            for a in range(0, n, 2):
                for b in range(1, n, 2):
                    if rng.random() < 0.08:
                        edges.add((min(a, b), max(a, b)))
        elif shape in ("sparse", "dense"):
            p = rng.uniform(0, 0.06) if shape == "sparse" else rng.uniform(0.3, 1.0)
            edges = {(a, b) for a, b in itertools.combinations(range(n), 2) if rng.random() < p}
        edges = sorted(edges)
        ctx.case(("random", shape), {"n": n, "edges": edges}, nontrivial=_nontrivial(n, edges))
        judge(ctx, n, edges)
        if ctx.every({"n": n, "edges": edges}, 5) and n <= 40:
            judge_after_failed_call(ctx, n, edges, fail_after=rng.choice([0, 1, 2, 5]))
    run_large(ctx)


def judge_after_failed_call(ctx, n, edges, fail_after=1):
    """A call whose comparison function raises part-way (an event without geometry reaches ``have_temporal_overlap``) is
    caught by the caller; the next, ordinary call is judged like any other."""
    from soundevent.geometry import operations as G

    evs = _events(max(n, 3), ctx.rng)
    seen = [0]

    def failing(a, b):
        seen[0] += 1
        if seen[0] > fail_after + 1:
            raise RuntimeError("comparison failed (an event without geometry)")
        return True

    try:
        G.group_sound_events(evs, failing)
    except RuntimeError:
        pass
    except Exception:
        pass
    ctx.mon("after_failed_call")
    n0 = len(ctx.violations)
    _judge_once(ctx, n, edges)
    for v in ctx.violations[n0:]:
        v["key"] = v["key"] + ":after_a_failed_call"
        v["spec"] = dict(v.get("spec") or {}, after_failed_call=True)


def _gen_edges(shape, n):
    if shape == "long_chain":
        # each event similar to the next one in input order (consecutive calls of one animal): a walk from the first
        # event passes through all of them
        return [(i, i + 1) for i in range(n - 1)]
    if shape == "big_cluster_plus_isolated":
        return [(a, b) for a in range(n - 3) for b in range(a + 1, n - 3)]
    if shape == "clique":
        return [(a, b) for a in range(n) for b in range(a + 1, n)]
    if shape == "hub_last":
        # one event similar to all the others (a long background call), the others pairwise dissimilar
        return [(i, n - 1) for i in range(n - 1)]
    if shape == "hub_first_plus_pair":
        return [(0, i) for i in range(1, n - 2)] + [(n - 2, n - 1)]
    raise ValueError(shape)


def run_large(ctx):
    """'For every number of sound events': one long chain and one big cluster (a night of calls linked pairwise), and
    events with exactly 127 / 128 / 255 / 256 / 511 / 512 partners (counts that do not fit the next smaller integer type)."""
    shapes = [("long_chain", 1500), ("big_cluster_plus_isolated", 700)]
    for d in (127, 128, 255, 256, 511, 512):
        shapes += [("clique", d + 1), ("hub_last", d + 1), ("hub_first_plus_pair", d + 3)]
    for k, (shape, n) in enumerate(shapes):
        if (k % ctx.nshards != ctx.shard) if ctx.thorough else ctx.shard != 0:
            continue
        ctx.case(("large", shape, n), {"n": n, "edges": "generated:" + shape}, nontrivial=True)
        _judge_once(ctx, n, _gen_edges(shape, n))


def replay(ctx, w):
    s = w["spec"]
    ctx.case("replay", s)
    edges = _gen_edges(s["edges"].split(":", 1)[1], s["n"]) if isinstance(s["edges"], str) else [tuple(e) for e in s["edges"]]
    if s.get("after_failed_call"):
        for fa in (0, 1, 2):
            judge_after_failed_call(ctx, s["n"], edges, fail_after=fa)
        return
    judge(ctx, s["n"], edges)
