"""C07 — matching is an optimal one-to-one assignment that covers every geometry once."""

from __future__ import annotations

import math

from rv.core import ctx as _ctx
from rv.core import calling, instrument
from rv.core.tolerances import REAL_TOL
from rv.gen import geoms

ANCHORS = ("evaluation/match.py", "evaluation/affinity.py")
THOROUGH_SHARDS = 12
AMBIENT_TESTS = ["tests/test_evaluation"]
_installed = False
_prev = []
BRUTE_MAX = 7


def _affinity(g1, g2, tb, fb):
    """Reference affinity of a pair, computed on FRESH copies of the two geometries so that nothing
    remembered about these particular objects (identity-keyed caches) can leak into the oracle."""
    from soundevent.evaluation import affinity as A

    f1, f2 = geoms.build(geoms.to_spec(g1)), geoms.build(geoms.to_spec(g2))
    return instrument.original(A.compute_affinity)(f1, f2, time_buffer=tb, freq_buffer=fb)


def best_assignment(M):
    """Independent brute force (subset DP over columns): max total weight of a one-to-one partial pairing."""
    n = len(M)
    m = len(M[0]) if n else 0
    if n == 0 or m == 0:
        return 0.0
    if n > m:  # transpose so that the DP is over the smaller side
        M = [[M[i][j] for i in range(n)] for j in range(m)]
        n, m = m, n
    NEG = -1.0
    dp = {0: 0.0}
    for i in range(n):
        nxt = {}
        for mask, val in dp.items():
            # row i unmatched
            if nxt.get(mask, NEG) < val:
                nxt[mask] = val
            for j in range(m):
                if not mask >> j & 1:
                    v = val + M[i][j]
                    mm = mask | 1 << j
                    if nxt.get(mm, NEG) < v:
                        nxt[mm] = v
        dp = nxt
    return max(dp.values())


def _observe(source, target, tb, fb, items):
    c = _ctx.CURRENT
    if c is None:
        return
    if not (all(isinstance(x, (int, float)) and math.isfinite(x) and x >= 0 for x in (tb, fb))):
        c.ood("match:buffers")
        return
    ss, ts = [geoms.to_spec(g) for g in source], [geoms.to_spec(g) for g in target]
    low = any(s["type"] in geoms.ZERO_ONE_D for s in ss + ts)
    if low and not (tb > 0 and fb > 0):
        # an explicit zero buffer is a legitimate request (points then have no area: nothing overlaps them); what the
        # pair affinities are is C06 / C11's business, so the matching is judged against compute_affinity with the SAME
        # buffers -- unless that itself fails (open C11 finding: zero buffer on a domain edge)
        try:
            for s_ in list(source)[:6]:
                for t_ in list(target)[:6]:
                    _affinity(s_, t_, tb, fb)
        except Exception:
            c.ood("match:zero_buffer_with_0_or_1d_geometry:affinity_undefined")
            return
        c.mon("match.zero_buffer_streams")
    # (closed-form types are valid as validated; a flat interval / box is a legitimate geometry of zero extent)
    if not all(geoms.to_spec(g)["type"] in ("TimeStamp", "TimeInterval", "BoundingBox") or geoms.is_shapely_valid(g) for g in list(source) + list(target)):
        c.ood("match:invalid_geometry")
        return
    c.mon("match_geometries.stream")
    spec = {"kind": "match", "source": ss, "target": ts, "tb": tb, "fb": fb}
    n, m = len(source), len(target)
    si = [i for i, _, _ in items if i is not None]
    tj = [j for _, j, _ in items if j is not None]
    if sorted(si) != list(range(n)) or sorted(tj) != list(range(m)):
        c.violate("covers_each_once", "covers_each_once", observed=[[i, j] for i, j, _ in items], expected={"sources": n, "targets": m}, spec=spec)
        return
    if any(i is None and j is None for i, j, _ in items):
        c.violate("empty_entry", "empty_entry", observed=[[i, j] for i, j, _ in items], spec=spec)
    total = 0.0
    for i, j, a in items:
        if i is None or j is None:
            if a != 0:
                c.violate("unpaired_reports_zero", "unpaired_reports_zero", observed=[i, j, a], expected=0, spec=spec)
            continue
        want = _affinity(source[i], target[j], tb, fb)
        if a != want:
            c.violate("reports_pair_affinity", "reports_pair_affinity", observed=[i, j, a], expected=want, spec=spec)
        if not a > 0:
            c.violate("paired_only_if_positive", "paired_only_if_positive", observed=[i, j, a], expected="affinity > 0 for every pair", spec=spec)
        total += a
    if n <= BRUTE_MAX and m <= BRUTE_MAX:
        c.mon("match.optimality")
        M = [[_affinity(s, t, tb, fb) for t in target] for s in source]
        best = best_assignment(M)
        if abs(best - total) > REAL_TOL * max(1.0, best):
            c.violate("optimal_total", "optimal_total", observed=total, expected=best, spec=spec)
    else:
        # too large for the exhaustive reference: a NECESSARY condition of a maximum total is still decidable -- no source
        # left unpaired may have positive affinity with a target left unpaired (pairing the two would add to the total)
        if n * m <= 4500:
            # ... and up to a few thousand pairs the maximum itself has a polynomial reference that is not the library's: the
            # Hungarian optimum (scipy) of the reference affinity matrix
            import numpy as _np
            from scipy.optimize import linear_sum_assignment as _lsa

            c.mon("match.optimality_hungarian_reference")
            M = _np.array([[_affinity(s, t, tb, fb) for t in target] for s in source], dtype=float)
            ri, ci = _lsa(M, maximize=True)
            best = float(M[ri, ci].sum())
            if abs(best - total) > REAL_TOL * max(1.0, best):
                c.violate("optimal_total", "optimal_total:hungarian_reference", observed=total, expected=best,
                          spec=spec if n * m <= 400 else {"kind": "match", "source": ss, "target": ts, "tb": tb, "fb": fb})
                return
        else:
            c.note("optimality_not_judged_large_input")
        us = [i for i, j, _ in items if j is None]
        ut = [j for i, j, _ in items if i is None]
        budget = 3000
        c.mon("match.no_unpaired_overlapping_couple")
        # (the budget goes to couples that can overlap at all: time extents within six buffers of one another -- a buffered
        # outline reaches at most five buffers, the mitre limit, beyond the geometry)
        bs = {i: geoms.ref_bounds(ss[i]) for i in us}
        bt = {j: geoms.ref_bounds(ts[j]) for j in ut}
        reach_t = 6 * tb + 1e-9
        for i in us:
            for j in ut:
                if bs[i][0] - reach_t > bt[j][2] + reach_t or bt[j][0] - reach_t > bs[i][2] + reach_t:
                    continue
                if budget <= 0:
                    break
                budget -= 1
                w_ = _affinity(source[i], target[j], tb, fb)
                if w_ > 0:
                    c.violate("optimal_total", "optimal_total:unpaired_source_and_unpaired_target_overlap", observed=[i, j, w_], expected="affinity 0 between any two unpaired geometries",
                              spec={"kind": "match", "source": [ss[i]], "target": [ts[j]], "tb": tb, "fb": fb, "n": n, "m": m, "note": "pair taken from a larger call"})
                    return


def install():
    global _installed
    if _installed:
        return

    def make(orig):
        def match_geometries(source, target, time_buffer=0.01, freq_buffer=100):
            items = list(orig(source, target, time_buffer=time_buffer, freq_buffer=freq_buffer))
            try:
                _observe(list(source), list(target), time_buffer, freq_buffer, items)
            except Exception as exc:
                c = _ctx.CURRENT
                if c is not None:
                    c.inconclusive_because(f"monitor_error:match_geometries:{type(exc).__name__}:{exc}"[:200])
            return iter(items)

        return match_geometries

    instrument.attach("soundevent.evaluation.match", "match_geometries", make)
    _installed = True


def judge(ctx, ss, ts, tb, fb):
    from soundevent.evaluation import match as M

    spec = {"kind": "match", "source": ss, "target": ts, "tb": tb, "fb": fb}
    src, tgt = [geoms.build(s) for s in ss], [geoms.build(t) for t in ts]
    if ss == ts and ss and ctx.evaluations % 2:
        tgt = src             # a list matched against itself: the very same list object on both sides
        ctx.mon("match.same_list_twice")
    try:
        if ctx.evaluations % 5 == 0:
            it = iter(instrument.original(M.match_geometries)(src, tgt, time_buffer=tb, freq_buffer=fb))
            next(it, None)
            del it
        if ctx.every(spec, 4):
            list(M.match_geometries(tuple(src), tuple(tgt), time_buffer=tb, freq_buffer=fb))     # sequences, not only lists
            of = instrument.original(M.match_geometries)
            calling.agree(ctx, "match_geometries", lambda *a, **k: sorted(map(repr, of(*a, **k))), dict(source=src, target=tgt, time_buffer=tb, freq_buffer=fb), spec,
                          variants={"numlike_buffers": {"time_buffer": calling.numlike(ctx.rng, tb), "freq_buffer": calling.numlike(ctx.rng, fb)}})
        first = list(M.match_geometries(src, tgt, time_buffer=tb, freq_buffer=fb))
        # the property holds for every call, also the second one on the very same objects
        second = list(M.match_geometries(src, tgt, time_buffer=tb, freq_buffer=fb))
        ctx.mon("repeat_call")
        if sorted(map(repr, first)) != sorted(map(repr, second)):
            ctx.violate("repeat_call_differs", "repeat_call_differs", observed=[first[:4], second[:4]], expected="same matching", spec=spec)
        # two live, lazily consumed results at once (``zip(match(a, b), match(c, d))``, a nested match inside a loop
        # over matches): each stream is judged exactly as a stream consumed on its own
        if not _prev and getattr(ctx, "replaying", False):
            _prev[:] = [(list(tgt), list(src), tb, fb)]
        if _prev and ctx.every(spec, 3):
            orig = instrument.original(M.match_geometries)
            psrc, ptgt, ptb, pfb = _prev[0]
            ga, gb = iter(orig(src, tgt, time_buffer=tb, freq_buffer=fb)), iter(orig(psrc, ptgt, time_buffer=ptb, freq_buffer=pfb))
            ia, ib, live = [], [], [True, True]
            while any(live):
                for k, (g, acc) in enumerate(((ga, ia), (gb, ib))):
                    if live[k]:
                        try:
                            acc.append(next(g))
                        except StopIteration:
                            live[k] = False
            ctx.mon("interleaved_streams")
            _observe(src, tgt, tb, fb, ia)
            _observe(list(psrc), list(ptgt), ptb, pfb, ib)
        _prev[:] = [(src, tgt, tb, fb)]
        # ... and a third call on the same objects with other buffers (judged by the same stream monitor)
        tb3, fb3 = (tb * 8, fb * 4) if tb < 0.1 else (tb / 8, fb / 4)
        list(M.match_geometries(src, tgt, time_buffer=tb3, freq_buffer=fb3))
    except Exception as e:
        if not (tb > 0 and fb > 0) and any(x["type"] in geoms.ZERO_ONE_D for x in ss + ts):
            ctx.ood("match:zero_buffer_with_0_or_1d_geometry:raises")      # open C11 finding territory
            return
        ctx.violate_exc("raises", f"raises:{type(e).__name__}", e, spec=spec)


def _cluster(rng, n, m, arrangement, base=None):
    """Boxes for n sources and m targets arranged to produce ties / chains / disjointness."""
    base = base or geoms.random_box(rng, rng.choice(["realistic", "dyadic"]))
    t0, t1, f0, f1 = base
    w, h = t1 - t0, f1 - f0
    out_s, out_t = [], []
    for k in range(n + m):
        is_src = k < n
        idx = k if is_src else k - n
        if arrangement == "chain":
            # alternating overlapping chain: s0 t0 s1 t1 ...
            pos = 2 * idx + (0 if is_src else 1)
            b = (t0 + pos * w * 0.6, t0 + pos * w * 0.6 + w, f0, f1)
        elif arrangement == "ties":
            b = base if rng.random() < 0.7 else (t0 + w / 2, t1 + w / 2, f0, f1)
        elif arrangement == "disjoint":
            b = (t0 + k * (w + 5.0), t0 + k * (w + 5.0) + w, f0, f1)
        elif arrangement == "duplicates":
            b = base
        elif arrangement == "covers":
            # one long source covering several short targets and vice versa: every geometry overlaps
            # something, but no complete overlapping pairing exists
            if is_src:
                b = (t0, t0 + 4 * w, f0, f1) if idx == 0 else (t0 + 10 * w + (idx - 1) * 1.5 * w, t0 + 10 * w + (idx - 1) * 1.5 * w + w, f0, f1)
            else:
                b = (t0 + 10 * w, t0 + 10 * w + 1.5 * w * max(1, n), f0, f1) if idx == 0 else (t0 + (idx - 1) * 1.5 * w, t0 + (idx - 1) * 1.5 * w + w, f0, f1)
        elif arrangement == "mixed":
            r = rng.random()
            if r < 0.4:
                b = (t0 + idx * w * 0.5, t0 + idx * w * 0.5 + w, f0, f1)
            elif r < 0.7:
                b = (t0 + k * (w + 3.0) + 100, t0 + k * (w + 3.0) + 100 + w, f0, f1)
            else:
                b = (t0 + rng.random() * w, t0 + rng.random() * w + w * rng.uniform(0.2, 2), f0 + rng.random() * h * 0.5, f1)
        else:
            b = (t0 + rng.uniform(0, 3) * w, 0, 0, 0)
            b = (b[0], b[0] + w * rng.uniform(0.3, 1.5), f0 + rng.uniform(-0.5, 0.5) * h if f0 > h else f0, f1)
        b = (max(b[0], 0.0), max(b[1], b[0] + 1e-3), max(b[2], 0.0), min(max(b[3], b[2] + 1.0), geoms.MAXF))
        (out_s if is_src else out_t).append(b)
    return out_s, out_t


def run(ctx):
    install()
    rng = ctx.rng
    from rv.props import concurrent_jobs

    concurrent_jobs.run_some(ctx, "C07")        # the same calls from a thread pool (rv/core/threads.py)
    ctx.must_monitors.append("concurrent_calls")
    ctx.rule = ("(source list, target list, buffers): all 49 length pairs 0..6 x arrangement {chain, ties, disjoint, duplicates, mixed, random} x type mix; "
                "non-trivial = both lists non-empty; distinct = distinct case spec")
    ctx.assumptions += ["valid geometries; positive buffers when points/lines take part", "optimality judged by brute force up to 7x7, not judged beyond",
                        "reported pair affinity compared for exact equality with a re-invocation of compute_affinity (deterministic)"]
    ctx.must_monitors += ["match_geometries.stream", "match.optimality"]
    ctx.must_reach += ["evaluation/match.py::match_geometries", "evaluation/match.py::_select_matches"]

    box = lambda a, b: {"type": "BoundingBox", "coordinates": [a, 100.0, b, 200.0]}
    directed = [
        ([box(0.0, 1.0)], [box(5.0, 6.0)]),                       # disjoint pair must stay unpaired
        ([box(0.0, 1.0), box(10.0, 11.0)], [box(10.0, 11.0)]),
        ([box(0.0, 2.0)], [box(1.0, 3.0), box(0.0, 2.0)]),
        ([], []), ([box(0.0, 1.0)], []), ([], [box(0.0, 1.0)]),
    ]
    directed += [([box(0.0, 1.0), box(0.5, 1.5), box(10.0, 11.0)],) * 2, ([{"type": "TimeStamp", "coordinates": 1.0}, {"type": "Point", "coordinates": [1.0, 2000.0]}],) * 2] * 2
    for ss, ts in directed:
        ctx.case(("directed", len(ss), len(ts)), {"source": ss, "target": ts, "tb": 0.01, "fb": 100.0}, nontrivial=bool(ss and ts))
        judge(ctx, ss, ts, 0.01, 100.0)

    reps = ctx.scale(10, 30)
    arrangements = ["chain", "ties", "disjoint", "duplicates", "mixed", "random", "covers"]
    for rep in range(reps):
        for n in range(0, 7):
            for m in range(0, 7):
                arr = arrangements[(rep + n + m) % len(arrangements)] if rep < len(arrangements) else rng.choice(arrangements)
                # homogeneous calls (onset detection: time stamps only; segment detection: intervals only; one type
                # throughout) next to mixed ones
                mix = rng.choice(["boxes", "areal", "all", "intervals", "time_only", "stamps", "one_type", "low_dim"])
                pool = {"boxes": ["BoundingBox"], "areal": ["BoundingBox", "Polygon", "MultiPolygon", "TimeInterval"],
                        "all": geoms.TYPES, "intervals": ["TimeInterval", "TimeStamp", "BoundingBox"], "time_only": ["TimeInterval", "TimeStamp"],
                        "stamps": ["TimeStamp"], "one_type": [rng.choice(geoms.TYPES)], "low_dim": list(geoms.ZERO_ONE_D)}[mix]
                tb, fb = rng.choice([(0.01, 100.0), (0.001, 10.0), (0.5, 2000.0), (0.01, 100.0), (0.0, 100.0), (0.01, 0.0), (0.0, 0.0)])
                base = None
                where = "anywhere"
                if rng.random() < 0.3:
                    # the whole configuration within a few buffers of a domain edge: time 0, frequency 0, MAX_FREQUENCY
                    where = "domain_edge"
                    tb, fb = rng.choice([(0.01, 100.0), (0.5, 2000.0), (0.001, 10.0)])
                    t0 = rng.choice([0.0, rng.uniform(0, tb)])
                    wdt = tb * rng.choice([0.5, 2.0, 10.0])
                    f0, f1 = rng.choice([(0.0, fb * rng.choice([0.5, 3.0])), (geoms.MAXF - fb * rng.choice([0.5, 3.0]), float(geoms.MAXF)), (1000.0, 1000.0 + 5 * fb)])
                    base = (t0, t0 + wdt, f0, f1)
                bs, bt = _cluster(rng, n, m, arr, base)
                ss = [geoms.geom_in_box(rng, rng.choice(pool), *b) for b in bs]
                ts = [geoms.geom_in_box(rng, rng.choice(pool), *b) for b in bt]
                if arr == "duplicates" and ss and ts:
                    ts = [ss[0]] * len(ts) if rng.random() < 0.5 else ts
                mix = mix + ":" + where
                if (ss or ts) and rng.random() < 0.3:
                    # a member of ANOTHER type that coincides with an existing one under some projection (same coordinates
                    # payload, same shapely shape: a time stamp and the full-height line at that instant, ...)
                    lst = rng.choice([l for l in (ss, ts) if l])
                    twins = geoms.lookalikes(rng.choice(lst))
                    if twins:
                        rng.choice([ss, ts]).insert(rng.randint(0, 1), rng.choice(twins))
                        ss, ts = ss[:7], ts[:7]
                        mix += ":with_lookalike"
                if (ss or ts) and rng.random() < 0.2:
                    # one member drawn without duration or bandwidth (click-and-release): still mentioned exactly once,
                    # paired only if its affinity with the partner is positive
                    lst = rng.choice([l for l in (ss, ts) if l])
                    j = rng.randrange(len(lst))
                    bb = geoms.ref_bounds(lst[j])
                    tm = rng.choice([bb[0], (bb[0] + bb[2]) / 2])
                    lst[j] = rng.choice([{"type": "TimeInterval", "coordinates": [tm, tm]},
                                         {"type": "BoundingBox", "coordinates": [tm, 1000.0, tm, 2000.0]},
                                         {"type": "BoundingBox", "coordinates": [bb[0], 1500.0, max(bb[2], bb[0]), 1500.0]}])
                    mix += ":with_zero_extent"
                ctx.case((n, m, arr, mix), {"source": ss, "target": ts, "tb": tb, "fb": fb}, nontrivial=bool(n and m))
                judge(ctx, ss, ts, tb, fb)
    # a few larger inputs (coverage / pairing rules judged, optimality not)
    sizes = [(rng.randint(8, 14), rng.randint(8, 14)) for _ in range(ctx.scale(3, 20))]
    # list lengths just below / at / above 16, 32, 64, 128, 256 on one or both sides
    sizes += [(16, 17), (17, 17), (33, 16), (31, 65), (64, 64), (129, 40), (3, 257), (256, 5)] if (ctx.shard == 0 or ctx.thorough) else []
    # dense overlap: every source overlaps every target (nested intervals / boxes sharing an origin), so that each row and
    # column of the affinity matrix has dozens of candidates and the optimum needs pairs that are nobody's favourite
    for n, m in ([(40, 40), (34, 33)] if (ctx.shard == 0 or ctx.thorough) else [(rng.randint(33, 48), rng.randint(33, 48))]):
        for kind in ("TimeInterval", "BoundingBox"):
            t0 = rng.choice([0.0, 16.0, 1024.0])
            mk = (lambda w_: {"type": "TimeInterval", "coordinates": [t0, t0 + w_]}) if kind == "TimeInterval" else \
                 (lambda w_: {"type": "BoundingBox", "coordinates": [t0, 1000.0, t0 + w_, 5000.0]})
            ss = [mk(1.0 - 0.02 * i) for i in range(n)]
            ts = [mk(1.0 + 0.1 * j) for j in range(m)]
            if kind == "BoundingBox":
                rng.shuffle(ss); rng.shuffle(ts)
            ctx.case(("large", "dense_nested", kind), {"source": ss[:3], "target": ts[:3], "tb": 0.0, "fb": 0.0, "n": n, "m": m})
            judge(ctx, ss, ts, 0.0, 0.0)
    for n, m in sizes:
        bs, bt = _cluster(rng, n, m, "mixed")
        ss = [geoms.geom_in_box(rng, "BoundingBox", *b) for b in bs]
        ts = [geoms.geom_in_box(rng, "BoundingBox", *b) for b in bt]
        ctx.case(("large", "mixed"), {"source": ss, "target": ts, "tb": 0.01, "fb": 100.0})
        judge(ctx, ss, ts, 0.01, 100.0)
    run_long_lists(ctx)
    # a star: one long event (a background interval, a whole-recording box) overlapping more than a thousand short ones
    if ctx.shard == 0:
        for long_first in (True, False):
            n_short = 1200
            long_ = {"type": "TimeInterval", "coordinates": [0.0, 3000.0]} if long_first else {"type": "BoundingBox", "coordinates": [0.0, 500.0, 3000.0, 9000.0]}
            shorts = [{"type": "BoundingBox", "coordinates": [2.0 * i + 0.25, 1000.0, 2.0 * i + 1.0, 3000.0]} for i in range(n_short)]
            ss, ts = ([long_], shorts) if long_first else (shorts, [long_])
            ctx.case(("star", "1_x_1200" if long_first else "1200_x_1"), {"source": ss[:2], "target": ts[:2], "tb": 0.01, "fb": 100.0, "n": len(ss), "m": len(ts)})
            from soundevent.evaluation import match as M_

            try:
                list(M_.match_geometries([geoms.build(s_, how="dict") for s_ in ss], [geoms.build(t_, how="dict") for t_ in ts]))
            except Exception as e:
                ctx.violate_exc("raises", f"raises:{type(e).__name__}", e, spec={"kind": "match", "shape": "star", "n": len(ss), "m": len(ts)})
    # near ties: two (or three) near-duplicate detections against near-duplicate annotations; the candidate pairings'
    # totals differ by 1e-9 .. 1e-7 -- far above double rounding (1e-16), far below single precision
    for _ in range(ctx.scale(150, 600)):
        k = rng.choice([2, 2, 3])
        c0, w = rng.choice([10.0, 100.0, 3.5]), rng.choice([2.0, 0.5])
        e = lambda: rng.uniform(-1, 1) * rng.choice([1e-7, 3e-7, 1e-6])
        mk = lambda off: {"type": "TimeInterval", "coordinates": [c0 + off + e(), c0 + off + w + e()]}
        ss = [mk((-1) ** i * 0.025 * w * (1 + i // 2)) for i in range(k)]
        ts = [mk(0.0) for _ in range(k)]
        ctx.case((k, k, "near_ties", "intervals"), {"source": ss, "target": ts, "tb": 0.01, "fb": 100.0})
        judge(ctx, ss, ts, 0.01, 100.0)


def run_long_lists(ctx):
    """A whole night of detections against a few annotations: several hundred geometries of mixed types in one
    call (coverage, pairing rule and reported affinities are judged; optimality only up to 7 x 7)."""
    rng = ctx.rng
    for rep in range(ctx.scale(2, 4)):
        n_far, n_near, m = rng.choice([260, 300, 520]), rng.randint(20, 40), rng.randint(20, 40)
        base = geoms.random_box(rng, "dyadic")
        w = base[1] - base[0]
        TYPES_ = ["BoundingBox", "TimeInterval", "Polygon", "TimeStamp", "Point", "LineString"]
        def gen(i, far):
            t0 = base[0] + (i % 7) * w * 0.6 + (1000.0 + 3 * w * i if far else 0.0)
            return geoms.geom_in_box(rng, rng.choice(TYPES_), t0, t0 + w, base[2], base[3])
        # hundreds of detections far from every annotation come first in the list; the ones that matter come last
        ss, ts = [gen(i, True) for i in range(n_far)] + [gen(i, False) for i in range(n_near)], [gen(i, False) for i in range(m)]
        # couples that meet only in the mitre spike of a sharply bent line (up to five buffers beyond its vertices): a
        # rise-and-fall chirp and a box just above its apex, a folded line and a time stamp just past the fold
        for q in range(6):
            tq = 5000.0 + 40.0 * q
            chirp = {"type": "LineString", "coordinates": [[tq, 1000.0], [tq + 0.05, 3000.0], [tq + 0.1, 1000.0]]}
            above = {"type": "BoundingBox", "coordinates": [tq, 3150.0, tq + 0.1, 3300.0]}
            fold = {"type": "LineString", "coordinates": [[tq + 10.0, 1300.0], [tq + 10.3, 2000.0], [tq + 10.0, 2700.0]]}
            stamp = {"type": "TimeStamp", "coordinates": tq + 10.335}
            (ss if q % 2 else ts).append(chirp); (ts if q % 2 else ss).append(above)
            (ss if q % 2 else ts).append(fold); (ts if q % 2 else ss).append(stamp)
        n = len(ss)
        if rep % 2:
            ss, ts = ts, ss
            n, m = m, n
        ctx.case(("long_lists", "n>256" if n > 256 else "m>256"), {"source": ss, "target": ts, "tb": 0.01, "fb": 100.0})
        from soundevent.evaluation import match as M

        try:
            list(M.match_geometries([geoms.build(s_) for s_ in ss], [geoms.build(t_) for t_ in ts], time_buffer=0.01, freq_buffer=100.0))
        except Exception as e:
            ctx.violate_exc("raises", f"raises:{type(e).__name__}", e, spec={"kind": "match", "source": ss[:3], "target": ts[:3], "n": n, "m": m})


def replay(ctx, w):
    install()
    s = w["spec"]
    ctx.case("replay", s)
    judge(ctx, s["source"], s["target"], s["tb"], s["fb"])
