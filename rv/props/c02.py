"""C02 — AOEF documents are self-contained and resolvable in a single pass."""

from __future__ import annotations

import os
from pathlib import Path

from rv.core import ctx as _ctx
from rv.gen import graphs
from rv.props import aoef_common as AC
from rv.props.c01 import shape

ANCHORS = ("io/aoef",)
THOROUGH_SHARDS = 12
AMBIENT_TESTS = ["tests/test_io"]
_spec = None
_inv_installed = False


class InvariantBroken(Exception):
    pass


def adapter_tables_consistent(self):
    """keys(_aoef_store) <= keys(_soundevent_store) and values(_mapping) <= keys(_soundevent_store).

    These are the directions that hold on the write path (fills _mapping), on the read path
    (does not) and mid-recursion while a sequence converts its parent. Records, never raises.
    """
    c = _ctx.CURRENT
    if c is None:
        return True
    c.mon("adapter_invariant")
    a, s, m = self._aoef_store, self._soundevent_store, self._mapping
    if not set(a) <= set(s):
        c.violate("adapter_tables", f"adapter_tables:aoef_without_soundevent:{type(self).__name__}", observed=sorted(map(str, set(a) - set(s)))[:3],
                  expected="every stored AOEF object has its sound event object", spec=_spec)
    if not set(m.values()) <= set(s):
        c.violate("adapter_tables", f"adapter_tables:mapping_without_store:{type(self).__name__}", observed=sorted(map(str, set(m.values()) - set(s)))[:3],
                  expected="every mapped id is stored", spec=_spec)
    return True


def install_invariant():
    global _inv_installed
    if _inv_installed:
        return
    import icontract

    from soundevent.io.aoef import adapters

    icontract.invariant(adapter_tables_consistent, error=InvariantBroken)(adapters.DataAdapter)
    _inv_installed = True


def _hook(obj, path, audio_dir):
    c = _ctx.CURRENT
    if c is None:
        return
    spec = _spec or {"kind": "ambient", "collection": type(obj).__name__}
    text = Path(path).read_text()
    # (a collection holding two versions of one object -- same uuid, other content -- has no well-defined set of "distinct
    # reachable objects": closure, uniqueness and parent order are judged, the reachable == defined clause is not)
    n = AC.check_document(c, obj, text, spec, strict_reachable=not spec.get("two_versions"))
    c.note(f"nonempty_lists>={min(n, 3)}")
    # single pass resolvable: the fresh loader resolves every reference on first sight
    try:
        AC.raw_load(path, audio_dir)
        c.mon("single_pass_load")
    except Exception as e:
        c.violate_exc("single_pass_load", f"single_pass_load:{type(obj).__name__}:{type(e).__name__}", e, spec=spec)


def _add_second_version(obj, gen):
    """An updated copy of a sequence (same uuid, now with a parent: ``phrase.model_copy(update={"parent": song})``) is
    annotated / predicted after the first version, in the same clip annotation / prediction."""
    from rv.core.walk import walk as _walk

    for _, inst in _walk(obj):
        if type(inst).__name__ in ("ClipAnnotation", "ClipPrediction") and inst.sequences:
            for sa in list(inst.sequences):
                if sa.sequence.parent is None:
                    song = gen.data.Sequence(uuid=gen.uid(), sound_events=[])
                    v2 = sa.sequence.model_copy(update={"parent": song})
                    inst.sequences.append(type(sa)(uuid=gen.uid(), sequence=v2, **({"score": 0.5} if "score" in type(sa).model_fields else {})))
                    return True
    return False


def judge(ctx, kind, graph_seed, knobs, audio_mode="none"):
    global _spec
    import json

    import soundevent.io as IO

    root = Path(AC.tmpdir()) / "audio"
    obj, gen = graphs.make(kind, graph_seed, audio_root=root, **knobs)
    two_versions = graph_seed % 6 == 4 and _add_second_version(obj, gen)
    audio_dir = {"none": None, "str": str(root), "path": root}[audio_mode]
    _spec = {"kind": "graph", "collection": kind, "graph_seed": graph_seed, "knobs": knobs, "audio_dir": audio_mode, "summary": AC.summary(obj)}
    if two_versions:
        _spec["two_versions"] = True
        ctx.mon("two_versions_of_a_sequence")
    n, shared = shape(obj)
    path = os.path.join(AC.tmpdir(), f"c02-{os.getpid()}.json")
    nonempty = 0
    if graph_seed % 2 == 1:
        # a first attempt with too narrow an audio directory fails half way through the collection (some recording lies
        # outside it); the caller corrects the directory and saves the same objects again: that document is judged
        try:
            from rv.core.walk import walk as _walk

            dirs = sorted({str(Path(i.path).parent) for _, i in _walk(obj) if type(i).__name__ == "Recording"})
            if len(dirs) >= 2:
                for d_ in dirs[:6]:      # each narrow choice fails at another point of the traversal
                    try:
                        IO.save(obj, path + ".failed.json", audio_dir=d_)
                    except Exception:
                        ctx.mon("save_retried_after_failure")
                    finally:
                        if os.path.exists(path + ".failed.json"):
                            os.remove(path + ".failed.json")
        except Exception:
            pass
    try:
        IO.save(obj, path, audio_dir=audio_dir)
        d = json.loads(Path(path).read_text()).get("data", {})
        nonempty = sum(1 for k in AC.LISTS if d.get(k))
    except Exception as e:
        ctx.violate_exc("save_raises", f"save_raises:{kind}:{type(e).__name__}", e, spec=_spec)
    ctx.case((kind, f"opt{knobs.get('p_opt')}", f"share{knobs.get('p_share')}", "size" + str(knobs.get("size", 2))), _spec, nontrivial=nonempty >= 3)
    if graph_seed % 3 == 0:
        # the same process now saves a second, related collection (same pools of users / notes / recordings / tags),
        # then the first one again: every document must be self-contained on its own
        kind2 = gen.rng.choice(graphs.COLLECTIONS)
        try:
            gen.p_share = max(gen.p_share, 0.8)
            obj2 = gen.build(kind2)
            _spec = dict(_spec, second_collection=kind2)
            IO.save(obj2, path, audio_dir=audio_dir)
            IO.save(obj, path, audio_dir=audio_dir)
        except Exception as e:
            ctx.violate_exc("save_raises", f"save_raises_second_collection:{kind2}:{type(e).__name__}", e, spec=_spec)
    _spec = None


def run(ctx):
    from rv.props import concurrent_jobs

    # (before the adapter invariant is installed: its monitor state is not meant to be shared between threads)
    concurrent_jobs.run_some(ctx, "C02", quick=3, thorough=12)        # the same calls from a thread pool (rv/core/threads.py)
    ctx.must_monitors.append("concurrent_calls")
    AC.install()
    install_invariant()
    AC.HOOKS[:] = [_hook]
    rng = ctx.rng
    ctx.rule = ("(collection type, graph seed, knobs) with the sharing patterns of the quantifier (users only as note authors / badge owners / recording owners, "
                "tags only in predictions or project / evaluation tag lists, sequences only as parents, sound events of other recordings); "
                "non-trivial = document has >= 3 non-empty top-level lists; distinct = distinct (collection, seed, knobs)")
    ctx.assumptions += ["the JSON text on disk is parsed with the stdlib and checked against an explicit reference-position schema plus a generic uuid backstop",
                        "reachable objects are collected by an independent walk over declared fields; tags are identified by (term label, value)",
                        "members of a collection's top-level lists are distinct"]
    ctx.must_monitors += ["document_checker", "adapter_invariant", "single_pass_load"]
    ctx.must_reach += ["?io/aoef/adapters.py::DataAdapter.to_aoef", "?io/aoef/adapters.py::DataAdapter.values", "?io/aoef/sequence.py::SequenceAdapter.assemble_aoef", "io/aoef/__init__.py::to_aeof"]
    for kind, s in [("prediction_set", 2), ("evaluation_set", 3), ("annotation_project", 5), ("evaluation", 7)]:
        judge(ctx, kind, s, {"p_opt": 1.0, "p_share": 0.3, "size": 2})
    n = ctx.scale(110, 300)
    for kind in graphs.COLLECTIONS:
        for i in range(n):
            knobs = {"p_opt": rng.choice([0.3, 0.5, 0.8, 1.0]), "p_share": rng.choice([0.0, 0.3, 0.6, 0.9]), "size": rng.choice([1, 2, 3, 5]), "p_id_reuse": rng.choice([0.0, 0.0, 0.3]), "p_twin": rng.choice([0.0, 0.0, 0.4])}
            if ctx.thorough and i % 60 == 0:
                knobs["size"] = 12
            judge(ctx, kind, rng.getrandbits(40), knobs, rng.choice(["none", "none", "path"]))


def replay(ctx, w):
    AC.install()
    install_invariant()
    AC.HOOKS[:] = [_hook]
    s = w["spec"]
    judge(ctx, s["collection"], s["graph_seed"], s["knobs"], s.get("audio_dir", "none"))


def ambient_install():
    AC.install()
    install_invariant()
    AC.HOOKS[:] = [_hook]
