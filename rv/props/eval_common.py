"""Shared machinery for the evaluation tasks (C08, C09): spec generator, builder, numpy-only oracles."""

from __future__ import annotations

import math
import uuid
from pathlib import Path

import numpy as np

from rv.gen import geoms

TASKS = ["clip_classification", "clip_multilabel_classification", "sound_event_classification", "sound_event_detection"]
NS = uuid.UUID(int=0x5EED)
# "x@ns" names a term of its own (name "ns:x") whose *label* is "x": two different terms may share a label
# "@": terms of two namespaces sharing a label; "#": a term with the SAME name as another one but other label / definition
# (a local revision of a vocabulary term) -- unequal terms, so tags with them are different classes
LABELS = ["species", "call_type", "genus@dwc", "genus@fieldguide", "genus@dwc#rev"]
VALS = ["a", "b", "c", "d", "e", "f", "g"]
EPS = 1e-9


def all_tags():
    return [[l, v] for l in LABELS for v in VALS[:4]]


# ------------------------------------------------------------------ generator
def _scores(rng, k, single_label=True):
    """k dyadic scores (multiples of 1/64). single_label: sum <= 1, else each in [0,1]."""
    if k == 0:
        return []
    if not single_label:
        return [rng.choice([0, 8, 16, 24, 31, 33, 40, 48, 56, 64]) / 64 for _ in range(k)]
    budget = 64
    out = []
    for i in range(k):
        hi = budget - (k - i - 1)
        v = rng.randint(0, max(0, hi)) if rng.random() < 0.9 else 0
        if rng.random() < 0.3:
            v = min(hi, rng.choice([0, 32, 64, 21, 1]))
        v = max(0, min(v, budget))
        out.append(v)
        budget -= v
    rng.shuffle(out)
    return [v / 64 for v in out]


def _pred_tags(rng, vocab, pool, single_label=True):
    """[[label, value, score]] over distinct tags (vocabulary and out-of-vocabulary)."""
    cand = list(vocab) + [t for t in pool if t not in vocab][:2]
    k = rng.choice([0, 1, 1, 2, 3, len(cand)])
    chosen = rng.sample(cand, min(k, len(cand)))
    inv = [t for t in chosen if t in vocab]
    sc = _scores(rng, len(inv), single_label)
    out = []
    it = iter(sc)
    for t in chosen:
        s = next(it) if t in vocab else rng.choice([0.0, 0.25, 1.0])
        out.append([t[0], t[1], s])
    return out


def _true_tags(rng, vocab, pool, multilabel=False):
    r = rng.random()
    oov = [t for t in pool if t not in vocab]
    if r < 0.15:
        return []                                   # unlabelled
    if r < 0.25 and oov:
        return [rng.choice(oov)]                    # only out-of-vocabulary
    n = rng.choice([1, 1, 1, 2, 3]) if not multilabel else rng.choice([1, 2, 2, 3])
    chosen = rng.sample(vocab, min(n, len(vocab)))
    if oov and rng.random() < 0.3:
        chosen.insert(rng.randrange(len(chosen) + 1), rng.choice(oov))
    return chosen


def random_case(rng, task, n_vocab=None, n_clips=None):
    pool = all_tags()
    nv = n_vocab or rng.choice([2, 3, 3, 4, 5, 6])
    vocab = rng.sample(pool, nv)
    nc = n_clips or rng.choice([1, 2, 3, 4, 8, 15, 30])
    clips = []
    for ci in range(nc):
        only = rng.choice(["both"] * 8 + ["ann", "pred"])
        clip = {"only": only, "t0": float(rng.choice([0.0, 1.0, 10.0])), "events": [], "ann_tags": [], "pred_tags": [], "rec": rng.choice([0, 0, 0, 1, 2])}
        if task in ("clip_classification", "clip_multilabel_classification"):
            ml = task == "clip_multilabel_classification"
            clip["ann_tags"] = _true_tags(rng, vocab, pool, multilabel=ml)
            clip["pred_tags"] = _pred_tags(rng, vocab, pool, single_label=not ml)
            if rng.random() < 0.15:
                # a second prediction for the same clip (the outputs of two passes concatenated): one more evaluated item
                clip["alt_pred_tags"] = _pred_tags(rng, vocab, pool, single_label=not ml)
                clip["alt_first"] = rng.random() < 0.5
        elif task == "sound_event_classification":
            if rng.random() < 0.4:       # clip-level tags / predicted tags exist too; they are not what this task evaluates
                clip["ann_tags"] = _true_tags(rng, vocab, pool, multilabel=True)
                clip["pred_tags"] = _pred_tags(rng, vocab, pool, single_label=False)
            ne = rng.choice([0, 1, 2, 3, 5] if rng.random() > 0.08 else [17, 30])
            for ei in range(ne):
                box = geoms.random_box(rng, "dyadic")
                clip["events"].append({"kind": "both_same_event", "geom": geoms.geom_in_box(rng, rng.choice(["BoundingBox", "TimeInterval", "Point"]), *box),
                                       "ann_tags": _true_tags(rng, vocab, pool), "pred_tags": _pred_tags(rng, vocab, pool), "pred_score": rng.choice([0.25, 0.5, 1.0])})
                if rng.random() < 0.25:
                    # the model run carries its own SoundEvent object for the same event (same uuid): features were
                    # attached to it, or it was re-loaded with other recording metadata
                    clip["events"][-1]["pred_event_copy"] = rng.choice(["features", "relocated"])
        else:
            # detection: annotated and predicted events with overlapping / disjoint / geometry-less placement
            if rng.random() < 0.4:
                clip["ann_tags"] = _true_tags(rng, vocab, pool, multilabel=True)
                clip["pred_tags"] = _pred_tags(rng, vocab, pool, single_label=False)
            na, npred = rng.choice([0, 1, 2, 3, 5]), rng.choice([0, 1, 2, 3, 5])
            if rng.random() < 0.1:
                # a busy clip: dozens of events on one or both sides (a dawn chorus), some of them without geometry
                na, npred = rng.choice([(17, 3), (3, 17), (24, 24), (33, 18), (18, 40)])
            slots = []
            t = 0.0
            for _ in range(max(na, npred) + 2):
                slots.append((t, t + 1.0, 1000.0, 3000.0))
                t += 4.0
            a_slots = rng.sample(range(len(slots)), na)
            for s in a_slots:
                geomless = rng.random() < 0.12
                g = None if geomless else geoms.geom_in_box(rng, rng.choice(["BoundingBox", "BoundingBox", "TimeInterval", "Polygon", "LineString", "Point"]), *slots[s])
                clip["events"].append({"kind": "ann", "slot": s, "geom": g, "ann_tags": _true_tags(rng, vocab, pool)})
            for _ in range(npred):
                how = rng.choice(["on_annotation", "on_annotation", "shifted", "free_slot", "far", "geomless", "diagonal", "other_band"])
                if how in ("on_annotation", "shifted", "diagonal", "other_band") and a_slots:
                    s = rng.choice(a_slots)
                    b = slots[s]
                    if how == "shifted":
                        b = (b[0] + 0.5, b[1] + 0.5, b[2], b[3])
                    elif how == "diagonal":
                        # just past the annotation in time AND just above it in frequency: disjoint on both axes at once
                        b = (b[1] + 0.1, b[1] + 1.1, b[3] + 100.0, b[3] + 1100.0)
                    elif how == "other_band":
                        # same time, another frequency band: disjoint in frequency only
                        b = (b[0], b[1], b[3] + 500.0, b[3] + 1500.0)
                else:
                    s = rng.randrange(len(slots))
                    b = slots[s]
                    if how == "far":
                        b = (b[0] + 500.0, b[1] + 500.0, b[2], b[3])
                g = None if how == "geomless" else geoms.geom_in_box(rng, rng.choice(["BoundingBox", "BoundingBox", "TimeInterval", "Polygon"]), *b)
                clip["events"].append({"kind": "pred", "geom": g, "pred_tags": _pred_tags(rng, vocab, pool), "pred_score": rng.choice([0.25, 0.5, 1.0])})
            if rng.random() < 0.25:
                # "covers": a long annotation over two short predictions and a long prediction over two short
                # annotations, seconds apart: everything overlaps something, no complete overlapping pairing
                base = t + 20.0
                box = lambda a, b: {"type": "BoundingBox", "coordinates": [a, 1000.0, b, 3000.0]}
                clip["events"] += [
                    {"kind": "ann", "geom": box(base, base + 6.0), "ann_tags": _true_tags(rng, vocab, pool)},
                    {"kind": "pred", "geom": box(base + 0.5, base + 1.5), "pred_tags": _pred_tags(rng, vocab, pool), "pred_score": 0.5},
                    {"kind": "pred", "geom": box(base + 3.0, base + 4.0), "pred_tags": _pred_tags(rng, vocab, pool), "pred_score": 0.5},
                    {"kind": "pred", "geom": box(base + 20.0, base + 26.0), "pred_tags": _pred_tags(rng, vocab, pool), "pred_score": 0.5},
                    {"kind": "ann", "geom": box(base + 20.5, base + 21.5), "ann_tags": _true_tags(rng, vocab, pool)},
                    {"kind": "ann", "geom": box(base + 23.0, base + 24.0), "ann_tags": _true_tags(rng, vocab, pool)},
                ]
            if rng.random() < 0.3:
                # different shapes of one kind that span exactly the same time-frequency box (two calls drawn inside
                # the same bounding box): equal bounds, unequal geometry
                base = t + 60.0
                kind = rng.choice(["Polygon", "LineString", "MultiPoint"])
                box_ = (base, base + 1.0, 1000.0, 3000.0)
                clip["events"] += [{"kind": "ann", "geom": geoms.geom_in_box(rng, kind, *box_), "ann_tags": _true_tags(rng, vocab, pool)}]
                clip["events"] += [{"kind": "pred", "geom": geoms.geom_in_box(rng, kind, *box_), "pred_tags": _pred_tags(rng, vocab, pool), "pred_score": 0.5} for _ in range(rng.choice([2, 3]))]
            if rng.random() < 0.12:
                # onset / segment detection: a clip whose events are ALL time-only, annotated and predicted segments back to
                # back on a centisecond grid (end of one == start of the next: they touch, they do not overlap) plus a
                # few that do overlap
                clip["events"] = []
                b = [round(rng.choice([0.0, 1.16, 12.3]) , 2)]
                for _ in range(rng.choice([6, 12, 24])):
                    b.append(round(b[-1] + rng.randint(1, 400) / 100.0, 2))
                for i in range(len(b) - 1):
                    iv = {"type": "TimeInterval", "coordinates": [b[i], b[i + 1]]}
                    if i % 2 == 0:
                        clip["events"].append({"kind": "ann", "geom": iv, "ann_tags": _true_tags(rng, vocab, pool)})
                    else:
                        clip["events"].append({"kind": "pred", "geom": iv, "pred_tags": _pred_tags(rng, vocab, pool), "pred_score": 0.5})
                    if rng.random() < 0.2:
                        ov = {"type": "TimeInterval", "coordinates": [round(b[i] + 0.01, 2), round(b[i + 1] + 0.37, 2)]} if rng.random() < 0.7 else {"type": "TimeStamp", "coordinates": b[i]}
                        clip["events"].append({"kind": "pred" if i % 2 == 0 else "ann", "geom": ov, "pred_tags": _pred_tags(rng, vocab, pool), "ann_tags": _true_tags(rng, vocab, pool), "pred_score": 0.5})
            rng.shuffle(clip["events"])
        clips.append(clip)
    if not any(c["only"] == "both" for c in clips):
        clips[0]["only"] = "both"
    for c in clips:
        if rng.random() < 0.2:
            c["pred_clip_copy"] = rng.choice(["features", "relocated"])
    if task == "sound_event_classification" and len(clips) >= 2 and rng.random() < 0.3:
        # overlapping clips of one recording: the SAME sound event is annotated (differently) in two clips
        a, b = rng.sample(range(len(clips)), 2)
        if clips[a]["events"]:
            ev = dict(clips[a]["events"][0])
            ev["shared"] = rng.getrandbits(20)
            clips[a]["events"][0] = ev
            twin = dict(ev)
            twin["ann_tags"] = _true_tags(rng, vocab, pool)
            twin["pred_tags"] = _pred_tags(rng, vocab, pool)
            clips[b]["events"].append(twin)
    return {"task": task, "vocab": vocab, "clips": clips}


# -------------------------------------------------------------------- builder
def _u(*parts):
    return uuid.uuid5(NS, ":".join(str(p) for p in parts))


def term_of(label_id):
    from soundevent import data

    if "#" in label_id:
        base, rev = label_id.split("#")
        label, ns = base.split("@")
        return data.Term(name=f"{ns}:{label}", label=f"{label} ({rev})", definition=f"{label} as revised locally ({rev})", uri=f"http://example.org/{ns}/{label}")
    if "@" in label_id:
        label, ns = label_id.split("@")
        return data.Term(name=f"{ns}:{label}", label=label, definition=f"{label} as understood by {ns}", uri=f"http://example.org/{ns}/{label}")
    return data.term_from_key(label_id)


def build(spec, order=None):
    """-> (clip_predictions, clip_annotations, tags, index) with deterministic uuids."""
    from soundevent import data

    def tag(t):
        return data.Tag(term=term_of(t[0]), value=t[1])

    rec0 = data.Recording(uuid=_u("rec"), path="/a/r.wav", duration=10000.0, channels=1, samplerate=44100)
    recs = {0: rec0, 1: data.Recording(uuid=_u("rec", 1), path="/a/other site/r1.wav", duration=10000.0, channels=2, samplerate=22050),
            2: data.Recording(uuid=_u("rec", 2), path="r2.flac", duration=20000.0, channels=1, samplerate=96000, time_expansion=10.0)}
    cps, cas = [], []
    idx = {"ann": {}, "pred": {}}
    order = order if order is not None else list(range(len(spec["clips"])))
    for ci in order:
        c = spec["clips"][ci]
        rec = recs[c.get("rec", 0)]      # evaluated clips need not come from one recording
        clip = data.Clip(uuid=_u("clip", ci), recording=rec, start_time=c["t0"], end_time=c["t0"] + 1000.0)
        pclip = clip
        if c.get("pred_clip_copy"):
            # the model run carries its own Clip object: same uuid, but with clip-level features / a relocated recording
            rec2 = rec.model_copy(update={"path": Path("/elsewhere") / "r.wav"}) if c["pred_clip_copy"] == "relocated" else rec
            pclip = clip.model_copy(update={"features": [data.Feature(term=data.term_from_key("snr"), value=3.5)], "recording": rec2})
        anns, preds = [], []
        for ei, e in enumerate(c["events"]):
            g = geoms.build(e["geom"]) if e.get("geom") is not None else None
            if e["kind"] in ("ann", "both_same_event"):
                se = data.SoundEvent(uuid=_u("se_shared", e["shared"]) if e.get("shared") is not None else _u("se", ci, ei), geometry=g, recording=rec)
                a = data.SoundEventAnnotation(uuid=_u("sea", ci, ei), sound_event=se, tags=[tag(t) for t in e["ann_tags"]])
                anns.append(a)
                idx["ann"][str(a.uuid)] = (ci, ei)
            if e["kind"] in ("pred", "both_same_event"):
                se = data.SoundEvent(uuid=(_u("se_shared", e["shared"]) if e.get("shared") is not None else _u("se", ci, ei)) if e["kind"] == "both_same_event" else _u("sep", ci, ei),
                                     geometry=g, recording=rec)
                if e.get("pred_event_copy") == "features":
                    se = se.model_copy(update={"features": [data.Feature(term=data.term_from_key("duration"), value=0.5)]})
                elif e.get("pred_event_copy") == "relocated":
                    se = se.model_copy(update={"recording": rec.model_copy(update={"path": Path("/elsewhere") / "r.wav"})})
                p = data.SoundEventPrediction(uuid=_u("sepred", ci, ei), sound_event=se, score=e.get("pred_score", 1.0),
                                              tags=[data.PredictedTag(tag=tag(t), score=t[2]) for t in e["pred_tags"]])
                preds.append(p)
                idx["pred"][str(p.uuid)] = (ci, ei)
        if c["only"] in ("both", "ann"):
            cas.append(data.ClipAnnotation(uuid=_u("ca", ci), clip=clip, sound_events=anns, tags=[tag(t) for t in c["ann_tags"]]))
        if c["only"] in ("both", "pred"):
            main = data.ClipPrediction(uuid=_u("cp", ci), clip=pclip, sound_events=preds,
                                       tags=[data.PredictedTag(tag=tag(t), score=t[2]) for t in c["pred_tags"]])
            both = [main]
            if c.get("alt_pred_tags") is not None:
                alt = data.ClipPrediction(uuid=_u("cp_alt", ci), clip=pclip, tags=[data.PredictedTag(tag=tag(t), score=t[2]) for t in c["alt_pred_tags"]])
                both = [alt, main] if c.get("alt_first") else [main, alt]
            cps.extend(both)
    return cps, cas, [tag(t) for t in spec["vocab"]], idx


# ------------------------------------------------- oracle: truths / scores
def true_class(vocab, tags):
    for t in tags:
        if list(t[:2]) in vocab:
            return vocab.index(list(t[:2]))
    return None


def multilabel_truth(vocab, tags):
    v = np.zeros(len(vocab))
    for t in tags:
        if list(t[:2]) in vocab:
            v[vocab.index(list(t[:2]))] = 1
    return v


def score_vector(vocab, ptags):
    v = np.zeros(len(vocab))
    for l, val, s in ptags:
        if [l, val] in vocab:
            v[vocab.index([l, val])] = s
    return v


def class_probability(y, s):
    return 1 - s.sum() if y is None else s[y]


# ------------------------------------------------ oracle: numpy-only metrics
def _with_none(S):
    S = np.asarray(S, float).reshape(len(S), -1)
    return np.c_[S, 1 - S.sum(axis=1, keepdims=True)]


def _correct_bounds(Y, S, k):
    """Per item: (definitely correct, possibly correct) for top-k with ties treated as ambiguous."""
    S = _with_none(S)
    K = S.shape[1] - 1
    lo, hi = [], []
    for y, s in zip(Y, S):
        t = K if y is None else y
        above = int((s > s[t] + 1e-7).sum())
        tie = int((np.abs(s - s[t]) <= 1e-7).sum())  # includes t
        lo.append(above + tie <= k)
        hi.append(above < k)
    return np.array(lo), np.array(hi)


def accuracy_bounds(Y, S, k=1):
    lo, hi = _correct_bounds(Y, S, k)
    return lo.mean(), hi.mean()


def balanced_accuracy_bounds(Y, S):
    lo, hi = _correct_bounds(Y, S, 1)
    K = np.asarray(S).reshape(len(S), -1).shape[1]
    T = np.array([K if y is None else y for y in Y])
    los, his = [], []
    for c in sorted(set(T.tolist())):
        m = T == c
        los.append(lo[m].mean())
        his.append(hi[m].mean())
    return float(np.mean(los)), float(np.mean(his))


def step_ap(y, s):
    """Step-wise average precision: sum over distinct thresholds of (R_n - R_{n-1}) P_n. None if no positive."""
    y = np.asarray(y, float)
    s = np.asarray(s, float)
    P = y.sum()
    if P == 0:
        return None
    order = np.argsort(-s, kind="stable")
    y, s = y[order], s[order]
    ap, tp, fp, prev_r = 0.0, 0.0, 0.0, 0.0
    i = 0
    n = len(y)
    while i < n:
        j = i
        while j < n and s[j] == s[i]:
            tp += y[j]
            fp += 1 - y[j]
            j += 1
        r = tp / P
        p = tp / (tp + fp)
        ap += (r - prev_r) * p
        prev_r = r
        i = j
    return ap


def mean_average_precision(Y, S, multilabel=False):
    """Macro mean over classes; unlabelled items (None) removed. None if undefined for some class."""
    S = np.asarray(S, float).reshape(len(S), -1)
    if multilabel:
        T = np.asarray(Y, float)
    else:
        keep = [i for i, y in enumerate(Y) if y is not None]
        if not keep:
            return None
        S = S[keep]
        T = np.zeros_like(S)
        for r, i in enumerate(keep):
            T[r, Y[i]] = 1
    aps = []
    for c in range(S.shape[1]):
        ap = step_ap(T[:, c], S[:, c])
        if ap is None:
            return None
        aps.append(ap)
    return float(np.mean(aps))


def jaccard(y, s, thr=0.5):
    p = np.asarray(s) > thr
    y = np.asarray(y) > 0
    u = (p | y).sum()
    if u == 0:
        return None
    return (p & y).sum() / u


METRIC_LABELS = {"Balanced Accuracy", "Accuracy", "Top 3 Accuracy", "True Class Probability", "Average Precision", "Mean Average Precision", "Jaccard Index"}


def close(a, b, tol=1e-9):
    return a is not None and b is not None and not (isinstance(a, float) and math.isnan(a)) and abs(a - b) <= tol


def pred_tags_of(spec, ci, ce):
    """The predicted tags (spec form) of the clip prediction a clip evaluation was computed from."""
    c = spec["clips"][ci]
    if c.get("alt_pred_tags") is not None and str(ce.predictions.uuid) == str(_u("cp_alt", ci)):
        return c["alt_pred_tags"]
    return c["pred_tags"]


def expected_clip_ids(spec):
    """Clip uuid (str) of every item that must be evaluated: once per prediction of a clip that is also annotated."""
    out = []
    for ci, c in enumerate(spec["clips"]):
        if c["only"] == "both":
            out.append(str(_u("clip", ci)))
            if c.get("alt_pred_tags") is not None:
                out.append(str(_u("clip", ci)))
    return out


def corrected_annotation(spec, rng):
    """-> (spec2, ci): the same case with ONE evaluated clip's annotation corrected (its true tags re-drawn / swapped
    between its events); None when there is nothing to correct."""
    import copy

    both = [i for i, c in enumerate(spec["clips"]) if c["only"] == "both"]
    if not both:
        return None
    spec2 = copy.deepcopy(spec)
    # prefer a clip in which the correction matters to the result: events on both sides
    rich = [i for i in both if any(e["kind"] != "pred" for e in spec["clips"][i]["events"]) and any(e["kind"] != "ann" for e in spec["clips"][i]["events"])]
    ci = rng.choice(rich or both)
    c = spec2["clips"][ci]
    pool = all_tags()
    if spec["task"].startswith("clip_"):
        new = _true_tags(rng, spec["vocab"], pool, multilabel=spec["task"] == "clip_multilabel_classification")
        if new == c["ann_tags"]:
            new = [t for t in spec["vocab"] if t not in c["ann_tags"]][:1]
        c["ann_tags"] = new
    else:
        evs = [e for e in c["events"] if e["kind"] in ("ann", "both_same_event") and e.get("shared") is None]
        if not evs:
            return None
        for e in evs:
            # the corrected label is another class than before (an unlabelled event gets a label)
            y = true_class(spec["vocab"], e["ann_tags"])
            e["ann_tags"] = [rng.choice([t for k, t in enumerate(spec["vocab"]) if k != y])]
            if spec["task"] == "sound_event_detection" and e.get("geom") is not None and rng.random() < 0.6:
                # ... and the corrected annotation draws the event somewhere else (it no longer meets the predictions)
                e["geom"] = geoms.shift_time(e["geom"], 700.0)
    return spec2, ci


def replace_annotation_in_list(cas, spec2, ci):
    """Replace, IN the caller's list object, the clip annotation of clip ``ci`` by the corrected one (same length)."""
    _, cas2, _, idx2 = build(spec2)
    target = str(_u("clip", ci))
    new = next(ca for ca in cas2 if str(ca.clip.uuid) == target)
    for p_, ca in enumerate(cas):
        if str(ca.clip.uuid) == target:
            cas[p_] = new
            return idx2
    return None
