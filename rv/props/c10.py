"""C10 — crowsetta conversions preserve times, frequencies, labels and order."""

from __future__ import annotations

import itertools
import math
import uuid

from rv.core import calling
from rv.gen import geoms

ANCHORS = ("io/crowsetta",)
THOROUGH_SHARDS = 8
EMPTY = "__empty__"
AMBIG = object()


def _rec(sr=44100, te=1.0):
    from soundevent import data

    return data.Recording(uuid=uuid.UUID(int=77), path="/audio/r.wav", duration=600.0, channels=1, samplerate=sr, time_expansion=te)


def _tag(k, v):
    from soundevent import data

    return data.Tag(term=data.term_from_key(k), value=v)


# ------------------------------------------------ reference model: labels -> tags
def ref_label_to_tags(label, o):
    """o: dict with tag_fn_mode, tag_mapping, term_mapping, key_mapping, key, term, fallback."""
    from soundevent import data

    if label in o.get("empty_labels", (EMPTY,)):
        return []
    fm = o.get("tag_fn_mode")
    if fm == "one":
        return [_tag("fn", label.upper())]
    if fm == "list":
        return [_tag("fn", label), _tag("fn2", label)]
    term = o.get("term")
    tm = o.get("term_mapping")
    term_hit = tm is not None and label in tm
    if term_hit:
        term = tm[label]
    tgm = o.get("tag_mapping")
    if tgm is not None and label in tgm:
        if term is None:
            r = tgm[label]
            return r if isinstance(r, list) else [r]
        return AMBIG  # docstring step 4 vs step 7: undecided by the documentation
    key = o.get("key")
    km = o.get("key_mapping")
    if km is not None and label in km:
        key = km[label]
    if key is None:
        key = o.get("fallback", "crowsetta")
    if term is None:
        term = data.term_from_key(key)
    return [data.Tag(term=term, value=label)]


_KIND = [0]


def _as_callable_kind(f):
    """The one-argument callback as callers have it: plain function, function with further optional parameters,
    functools.partial with a bound keyword, variadic function, callable object, bound method."""
    import functools

    _KIND[0] += 1
    k = _KIND[0] % 6
    if k == 1:
        return lambda x, default=None, *, strict=False: f(x)
    if k == 2:
        def g(x, sep):
            return f(x)
        return functools.partial(g, sep="|")
    if k == 3:
        return lambda *a: f(*a)
    if k == 4:
        class _C:
            def __call__(self, x, extra=None):
                return f(x)
        return _C()
    if k == 5:
        class _M:
            def convert(self, x):
                return f(x)
        return _M().convert
    return f


def _mk_label_kwargs(o):
    kw = {}
    fm = o.get("tag_fn_mode")
    if fm == "one":
        kw["tag_fn"] = lambda l: _tag("fn", l.upper())
    elif fm == "list":
        kw["tag_fn"] = lambda l: [_tag("fn", l), _tag("fn2", l)]
    elif fm == "raises":
        def f(l):
            raise ValueError("no")
        kw["tag_fn"] = f
    if "tag_fn" in kw:
        kw["tag_fn"] = _as_callable_kind(kw["tag_fn"])
    for k in ("tag_mapping", "term_mapping", "key_mapping", "key", "term", "fallback", "empty_labels"):
        if o.get(k) is not None:
            kw[k] = o[k]
    return kw


def _o_spec(o):
    out = {}
    for k, v in o.items():
        if v is None:
            continue
        if k in ("tag_mapping", "term_mapping", "key_mapping"):
            out[k] = sorted(v)
        elif k == "term":
            out[k] = v.label
        elif k == "empty_labels":
            out[k] = {"as": type(v).__name__, "labels": list(v)}
        else:
            out[k] = v
    return out


def _other_mapping(rng, m, default_factory):
    """The same label table held as another kind of mapping: tables are often built with ``defaultdict`` (whose
    ``__getitem__`` succeeds -- and inserts -- for absent keys), handed over read-only, or layered."""
    import collections
    import types

    kind = rng.choice(["defaultdict", "defaultdict", "proxy", "chainmap", "userdict", "ordered"])
    if kind == "defaultdict":
        d = collections.defaultdict(default_factory)
        d.update(m)
        return kind, d
    if kind == "proxy":
        return kind, types.MappingProxyType(dict(m))
    if kind == "chainmap":
        return kind, collections.ChainMap({}, dict(m))
    if kind == "userdict":
        return kind, collections.UserDict(m)
    return kind, collections.OrderedDict(m)


def mapping_kinds_agree(ctx, fn, args, kw, names, factories, spec, what):
    """Relational: the call with each mapping option held as another Mapping type answers the same, and the
    caller's table has the same keys afterwards."""
    present = [n for n in names if kw.get(n) is not None]
    if not present:
        return
    st, v = calling.outcome(fn, *args, **kw)
    kw2, kinds = dict(kw), {}
    for n in present:
        kinds[n], kw2[n] = _other_mapping(ctx.rng, kw[n], factories[n])
    before = {n: sorted(map(repr, kw2[n].keys())) for n in present}
    st2, v2 = calling.outcome(fn, *args, **kw2)
    ctx.mon("mapping_kinds")
    same = st == st2 and (st != "ok" or (list(v) == list(v2) if isinstance(v, (list, tuple)) else v == v2))
    if not same:
        ctx.violate(f"{what}:cascade", f"{what}:other_mapping_type_answers_differently", observed=[st2, repr(v2)[:160]], expected=[st, repr(v)[:160]], spec=dict(spec, mapping_kinds=kinds))
        return
    after = {n: sorted(map(repr, kw2[n].keys())) for n in present}
    if after != before:
        ctx.violate(f"{what}:cascade", f"{what}:callers_mapping_modified", observed=after, expected=before, spec=dict(spec, mapping_kinds=kinds))


def judge_label_to_tags(ctx, label, o):
    from soundevent.io.crowsetta import labels as L

    spec = {"kind": "label_to_tags", "label": label, "options": _o_spec(o)}
    want = ref_label_to_tags(label, o)
    ctx.mon("label_to_tags")
    try:
        got = L.label_to_tags(label, **_mk_label_kwargs(o))
    except Exception as e:
        ctx.violate_exc("label_to_tags:raises", f"label_to_tags:raises:{type(e).__name__}", e, spec=spec)
        return
    if ctx.every(spec, 2):
        mapping_kinds_agree(ctx, L.label_to_tags, (label,), _mk_label_kwargs(o), ("tag_mapping", "term_mapping", "key_mapping"),
                            {"tag_mapping": list, "term_mapping": lambda: __import__("soundevent").data.term_from_key("mapped_term"), "key_mapping": lambda: "defaulted"}, spec, "label_to_tags")
    if want is AMBIG:
        ctx.dc("label_cascade_documentation_ambiguous")
        return
    if list(got) != list(want):
        key = "label_to_tags:cascade"
        if o.get("key") is not None and o.get("key_mapping") is not None and label not in o["key_mapping"] and o.get("term") is None and not (o.get("term_mapping") and label in o["term_mapping"]):
            key = "label_to_tags:cascade:key_mapping_miss_wipes_explicit_key"
        ctx.violate("label_to_tags:cascade", key, observed=[[t.term.label, t.value] for t in got], expected=[[t.term.label, t.value] for t in want], spec=spec)


# ------------------------------------------------ reference model: tags -> label
def ref_label_from_tag(tag, o):
    if o.get("label_fn_mode"):
        return f"FN<{tag.value}>"
    lm = o.get("label_mapping")
    if lm is not None and tag in lm:
        return lm[tag]
    if o.get("value_only"):
        return tag.value
    return f"{tag.term.label}:{tag.value}"


def ref_label_from_tags(tags, o):
    if o.get("seq_fn_mode"):
        return f"SEQ<{len(tags)}>"
    if not tags:
        return o.get("empty_label") or EMPTY
    sk = o.get("select_by_key")
    if sk is not None:
        t = next((t for t in tags if t.term.label == sk), None)
        if t is None:
            return o.get("empty_label") or EMPTY
        if o.get("value_only") is False:
            # "**kwargs: additional keyword arguments passed to the tag-to-label conversion": an explicit value_only=False is
            # the caller's choice and gives key-separator-value (only the DEFAULT for a selected tag is value only)
            return ref_label_from_tag(t, o)
        return ref_label_from_tag(t, dict(o, value_only=True))
    if o.get("index") is not None:
        return ref_label_from_tag(tags[o["index"] % len(tags)], o)
    return (o.get("separator") or ",").join(ref_label_from_tag(t, o) for t in tags)


def _mk_from_kwargs(o):
    kw = {}
    if o.get("seq_fn_mode"):
        kw["seq_label_fn"] = lambda ts: f"SEQ<{len(ts)}>"
    if o.get("label_fn_mode"):
        kw["label_fn"] = lambda t: f"FN<{t.value}>"
    for k in ("seq_label_fn", "label_fn"):
        if k in kw:
            kw[k] = _as_callable_kind(kw[k])
    for k in ("label_mapping", "value_only", "select_by_key", "index", "separator", "empty_label"):
        if o.get(k) is not None:
            kw[k] = o[k]
    return kw


def _f_spec(o):
    out = {k: v for k, v in o.items() if v is not None and k != "label_mapping"}
    if o.get("label_mapping") is not None:
        out["label_mapping"] = sorted(f"{t.term.label}:{t.value}" for t in o["label_mapping"])
    return out


def judge_label_from_tags(ctx, tagspec, o):
    from soundevent.io.crowsetta import labels as L

    tags = [_tag(k, v) for k, v in tagspec]
    spec = {"kind": "label_from_tags", "tags": tagspec, "options": _f_spec(o)}
    want = ref_label_from_tags(tags, o)
    ctx.mon("label_from_tags")
    try:
        got = L.label_from_tags(tags, **_mk_from_kwargs(o))
    except Exception as e:
        key = f"label_from_tags:raises:{type(e).__name__}"
        if isinstance(e, TypeError) and o.get("select_by_key") is not None and o.get("value_only") is not None:
            key = "label_from_tags:raises:select_by_key_with_value_only"
        ctx.violate_exc("label_from_tags:raises", key, e, spec=spec)
        return
    if ctx.every(spec, 4):
        kw = _mk_from_kwargs(o)
        calling.agree(ctx, "label_from_tags", L.label_from_tags, dict(tags=tags, **kw), spec)
        if tags:
            kt = {k: v for k, v in kw.items() if k in ("label_fn", "label_mapping", "value_only", "separator")}
            if "separator" in kt and "select_by_key" not in kw:
                kt.pop("separator")
            calling.agree(ctx, "label_from_tag", L.label_from_tag, dict(tag=tags[0], **{k: v for k, v in kt.items() if k != "separator"}), spec,
                          variants={"boolish_value_only": {"value_only": calling.boolish(ctx.rng, kt["value_only"])}} if "value_only" in kt else None)
    if ctx.every(spec, 2):
        mapping_kinds_agree(ctx, L.label_from_tags, (tags,), _mk_from_kwargs(o), ("label_mapping",), {"label_mapping": lambda: "DEFAULTED"}, spec, "label_from_tags")
    if want is AMBIG:
        ctx.dc("select_by_key_with_explicit_value_only_false")
        return
    if got != want:
        ctx.violate("label_from_tags:cascade", "label_from_tags:cascade", observed=got, expected=want, spec=spec)


# ----------------------------------------------------------------- imports
def judge_import_segment(ctx, onset_s, offset_s, onset_sample, offset_sample, label, sr, te, adjust):
    import crowsetta

    from soundevent.io.crowsetta import segment as S

    spec = {"kind": "import_segment", "onset_s": onset_s, "offset_s": offset_s, "onset_sample": onset_sample, "offset_sample": offset_sample,
            "label": label, "sr": sr, "te": te, "adjust": adjust}
    try:
        seg = crowsetta.Segment.from_keyword(label=label, onset_s=onset_s, offset_s=offset_s, onset_sample=onset_sample, offset_sample=offset_sample)
    except Exception:
        try:
            seg = crowsetta.Segment(label=label, onset_s=onset_s, offset_s=offset_s, onset_sample=onset_sample, offset_sample=offset_sample)
        except Exception:
            ctx.ood("dependency_precondition:segment")
            return
    rec = _rec(sr, te)
    ctx.mon("import_segment")
    try:
        ann = S.segment_to_annotation(seg, rec, adjust_time_expansion=adjust)
    except Exception as e:
        ctx.violate_exc("import_segment:raises", f"import_segment:raises:{type(e).__name__}", e, spec=spec)
        return
    file_sr = sr / te
    t0 = onset_s if onset_s is not None else onset_sample / file_sr
    t1 = offset_s if offset_s is not None else offset_sample / file_sr
    if adjust and te != 1:
        t0, t1 = t0 / te, t1 / te
    g = ann.sound_event.geometry
    if g is None or g.type != "TimeInterval" or list(g.coordinates) != [t0, t1]:
        ctx.violate("import_segment:times", "import_segment:times", observed=None if g is None else geoms.to_spec(g), expected=[t0, t1], spec=spec)
    if ann.sound_event.recording != rec:
        ctx.violate("import_segment:recording", "import_segment:recording", spec=spec)
    want = ref_label_to_tags(label, {})
    if list(ann.tags) != want:
        ctx.violate("import_segment:tags", "import_segment:tags", observed=[[t.term.label, t.value] for t in ann.tags], expected=[[t.term.label, t.value] for t in want], spec=spec)
    if ctx.every(spec, 6):
        # the caller owns the returned annotation: it edits tags, notes and the interval in place and imports the segment again
        from rv.core import scribble

        try:
            acted = scribble.scribble(ann) + (scribble.scribble(g.coordinates) if g is not None else 0)
            if acted:
                ctx.mon("repeat_after_result_edit")
                ann2 = S.segment_to_annotation(seg, _rec(sr, te), adjust_time_expansion=adjust)
                g2 = ann2.sound_event.geometry
                if g2 is None or list(g2.coordinates) != [t0, t1] or list(ann2.tags) != want or list(ann2.notes) != []:
                    ctx.violate("import_segment:times", "import_segment:repeat_differs_after_result_edit", observed=None if g2 is None else geoms.to_spec(g2), expected=[t0, t1], spec=spec)
        except Exception as e:
            ctx.violate_exc("import_segment:raises", f"import_segment:raises_on_repeat:{type(e).__name__}", e, spec=spec)


def judge_import_bbox(ctx, onset, offset, lo, hi, label, sr, te, adjust):
    import crowsetta

    from soundevent.io.crowsetta import bbox as B

    spec = {"kind": "import_bbox", "onset": onset, "offset": offset, "low": lo, "high": hi, "label": label, "sr": sr, "te": te, "adjust": adjust}
    try:
        bb = crowsetta.BBox(onset=onset, offset=offset, low_freq=lo, high_freq=hi, label=label)
    except Exception:
        ctx.ood("dependency_precondition:bbox")
        return
    rec = _rec(sr, te)
    t0, t1, f0, f1 = onset, offset, lo, hi
    if adjust and te != 1:
        t0, t1, f0, f1 = t0 / te, t1 / te, f0 * te, f1 * te
    if f1 > geoms.MAXF:
        ctx.ood("frequency_above_max_after_expansion")
        return
    ctx.mon("import_bbox")
    try:
        ann = B.bbox_to_annotation(bb, rec, adjust_time_expansion=adjust)
    except Exception as e:
        ctx.violate_exc("import_bbox:raises", f"import_bbox:raises:{type(e).__name__}", e, spec=spec)
        return
    g = ann.sound_event.geometry
    if g is None or g.type != "BoundingBox" or list(g.coordinates) != [t0, f0, t1, f1]:
        ctx.violate("import_bbox:coordinates", "import_bbox:coordinates", observed=None if g is None else geoms.to_spec(g), expected=[t0, f0, t1, f1], spec=spec)
    want = ref_label_to_tags(label, {})
    if list(ann.tags) != want:
        ctx.violate("import_bbox:tags", "import_bbox:tags", observed=[[t.term.label, t.value] for t in ann.tags], expected=[[t.term.label, t.value] for t in want], spec=spec)


# ----------------------------------------------------------------- exports
def _annotation(gspec, tagspec, sr, te=1.0):
    from soundevent import data

    rec = _rec(sr, te)
    g = geoms.build(gspec) if gspec is not None else None
    se = data.SoundEvent(uuid=uuid.UUID(int=5), geometry=g, recording=rec)
    return data.SoundEventAnnotation(uuid=uuid.UUID(int=6), sound_event=se, tags=[_tag(k, v) for k, v in tagspec])


def ref_segment(gspec, tagspec, sr, cast, o):
    """-> ('ok', onset, offset, s0, s1, label) or ('error',)"""
    if gspec is None:
        return ("error",)
    if gspec["type"] != "TimeInterval" and not cast:
        return ("error",)
    b = geoms.ref_bounds(gspec)
    t0, t1 = float(b[0]), float(b[2])
    tags = [_tag(k, v) for k, v in tagspec]
    return ("ok", t0, t1, math.floor(t0 * sr), math.floor(t1 * sr), ref_label_from_tags(tags, o))


def judge_export_segment(ctx, gspec, tagspec, sr, cast, o):
    from soundevent.io.crowsetta import segment as S

    spec = {"kind": "export_segment", "g": gspec, "tags": tagspec, "sr": sr, "cast": cast, "options": _f_spec(o)}
    want = ref_segment(gspec, tagspec, sr, cast, o)
    ann = _annotation(gspec, tagspec, sr)
    ctx.mon("export_segment")
    try:
        seg = S.segment_from_annotation(ann, cast_to_segment=cast, **_mk_from_kwargs(o))
    except ValueError as e:
        if want[0] == "ok":
            if want[1] == want[2] or "onset" in str(e).lower():
                ctx.ood("dependency_precondition:segment")
            else:
                ctx.violate_exc("export_segment:spurious_error", "export_segment:spurious_error", e, spec=spec)
        return
    except Exception as e:
        key = f"export_segment:raises:{type(e).__name__}"
        if isinstance(e, TypeError) and o.get("select_by_key") is not None and o.get("value_only") is not None:
            key = "label_from_tags:raises:select_by_key_with_value_only"
        ctx.violate_exc("export_segment:raises", key, e, spec=spec)
        return
    if want[0] == "error":
        ctx.violate("export_segment:error_expected", "export_segment:error_expected", observed=repr(seg)[:200], expected="ValueError", spec=spec)
        return
    got = (seg.onset_s, seg.offset_s, seg.onset_sample, seg.offset_sample, seg.label)
    if got != want[1:]:
        ctx.violate("export_segment:values", "export_segment:values", observed=list(got), expected=list(want[1:]), spec=spec)
        return
    if ctx.evaluations % 3 == 0:
        g2 = {"type": "TimeInterval", "coordinates": [want[1] + 1.5, want[2] + 4.0]}
        ann.sound_event.geometry = geoms.build(g2)
        want2 = ref_segment(g2, tagspec, sr, cast, o)
        ctx.mon("export_after_in_place_edit")
        try:
            seg2 = S.segment_from_annotation(ann, cast_to_segment=cast, **_mk_from_kwargs(o))
            got2 = (seg2.onset_s, seg2.offset_s, seg2.onset_sample, seg2.offset_sample, seg2.label)
            if got2 != want2[1:]:
                ctx.violate("export_segment:values", "export_segment:values:stale_after_in_place_edit", observed=list(got2), expected=list(want2[1:]), spec=dict(spec, edited_to=g2))
        except ValueError:
            pass


def ref_bbox(gspec, tagspec, sr, cast, raise_time, o):
    if gspec is None:
        return ("error",)
    if gspec["type"] != "BoundingBox" and not cast:
        return ("error",)
    if gspec["type"] in geoms.TIME_ONLY and raise_time:
        return ("error",)
    b = geoms.ref_bounds(gspec)
    hi = min(float(b[3]), sr / 2)
    tags = [_tag(k, v) for k, v in tagspec]
    return ("ok", float(b[0]), float(b[2]), float(b[1]), hi, ref_label_from_tags(tags, o))


def judge_export_bbox(ctx, gspec, tagspec, sr, cast, raise_time, o):
    from soundevent.io.crowsetta import bbox as B

    spec = {"kind": "export_bbox", "g": gspec, "tags": tagspec, "sr": sr, "cast": cast, "raise_time": raise_time, "options": _f_spec(o)}
    want = ref_bbox(gspec, tagspec, sr, cast, raise_time, o)
    ann = _annotation(gspec, tagspec, sr)
    ctx.mon("export_bbox")
    try:
        bb = B.bbox_from_annotation(ann, cast_to_bbox=cast, raise_on_time_geometries=raise_time, **_mk_from_kwargs(o))
    except ValueError as e:
        if want[0] == "ok":
            if not (want[1] < want[2]) or not (want[3] < want[4]):
                ctx.ood("dependency_precondition:bbox")  # crowsetta refuses onset >= offset / low >= high
            else:
                ctx.violate_exc("export_bbox:spurious_error", "export_bbox:spurious_error", e, spec=spec)
        return
    except Exception as e:
        key = f"export_bbox:raises:{type(e).__name__}"
        if isinstance(e, TypeError) and o.get("select_by_key") is not None and o.get("value_only") is not None:
            key = "label_from_tags:raises:select_by_key_with_value_only"
        ctx.violate_exc("export_bbox:raises", key, e, spec=spec)
        return
    if want[0] == "error":
        ctx.violate("export_bbox:error_expected", "export_bbox:error_expected", observed=repr(bb)[:200], expected="ValueError", spec=spec)
        return
    got = (bb.onset, bb.offset, bb.low_freq, bb.high_freq, bb.label)
    if got != want[1:]:
        ctx.violate("export_bbox:values", "export_bbox:values", observed=list(got), expected=list(want[1:]), spec=spec)
        return
    # the annotation is edited in place (its sound event gets another geometry) and exported again: the export
    # must span the CURRENT geometry
    if ctx.evaluations % 3 == 0:
        g2 = {"type": "BoundingBox", "coordinates": [want[1] + 1.5, 10.0, want[2] + 4.0, 20.0]}
        ann.sound_event.geometry = geoms.build(g2)
        want2 = ref_bbox(g2, tagspec, sr, cast, raise_time, o)
        ctx.mon("export_after_in_place_edit")
        try:
            bb2 = B.bbox_from_annotation(ann, cast_to_bbox=cast, raise_on_time_geometries=raise_time, **_mk_from_kwargs(o))
            got2 = (bb2.onset, bb2.offset, bb2.low_freq, bb2.high_freq, bb2.label)
            if want2[0] == "ok" and got2 != want2[1:]:
                ctx.violate("export_bbox:values", "export_bbox:values:stale_after_in_place_edit", observed=list(got2), expected=list(want2[1:]), spec=dict(spec, edited_to=g2))
        except ValueError:
            pass


# ------------------------------------------------ sequences / annotations / round trip
def judge_sequence_export(ctx, items, sr, cast, ignore_errors, fmt, raise_time=True, label_raises=False):
    """items: [(gspec|None, tagspec)]. Order preserved, skip/raise policy.  ``label_raises``: the caller's label function
    refuses (ValueError) every tag whose value is "b" -- such an event is unconvertible exactly like one without geometry."""
    from soundevent import data
    from soundevent.io.crowsetta import annotation as A
    from soundevent.io.crowsetta import sequence as Q

    rec = _rec(sr)
    anns = []
    for i, (gs, ts) in enumerate(items):
        se = data.SoundEvent(uuid=uuid.UUID(int=1000 + i), geometry=geoms.build(gs) if gs is not None else None, recording=rec)
        anns.append(data.SoundEventAnnotation(uuid=uuid.UUID(int=2000 + i), sound_event=se, tags=[_tag(k, v) for k, v in ts]))
    spec = {"kind": "sequence_export", "items": [[g, t] for g, t in items], "sr": sr, "cast": cast, "ignore_errors": ignore_errors, "fmt": fmt, "raise_time": raise_time,
            "label_raises": label_raises}
    o = {"value_only": True}
    lkw = {}
    if label_raises:
        def _fn(tag):
            if tag.value == "b":
                raise ValueError("no label for this tag")
            return tag.value
        lkw = {"label_fn": _fn}
    if fmt == "seq_direct":
        refs = [ref_segment(gs, ts, sr, cast, o) for gs, ts in items]
    elif fmt == "seq":
        refs = [ref_segment(gs, ts, sr, cast, o) for gs, ts in items]
    else:
        refs = [ref_bbox(gs, ts, sr, cast, raise_time, o) for gs, ts in items]
    # dependency preconditions count as unconvertible too
    def conv(r):
        if r[0] != "ok":
            return False
        if fmt == "bbox":
            return r[1] < r[2] and r[3] < r[4]
        return True
    if label_raises:
        refs = [("err",) if any(v == "b" for _, v in ts) and r[0] == "ok" else r for r, (gs, ts) in zip(refs, items)]
    want = [r[1:] for r in refs if conv(r)]
    any_err = any(not conv(r) for r in refs)
    ctx.mon("sequence_export")
    try:
        if fmt == "seq_direct":
            out = Q.sequence_from_annotations(anns, cast_to_segment=cast, ignore_errors=ignore_errors, value_only=True, **lkw)
            got = [(s.onset_s, s.offset_s, s.onset_sample, s.offset_sample, s.label) for s in out.segments]
        else:
            clip = data.Clip(uuid=uuid.UUID(int=9), recording=rec, start_time=0, end_time=600.0)
            seqs = []
            if anns and len(items) % 2:
                # the clip annotation also groups SOME of its sound events into a sequence (a phrase): the export is still
                # one element per sound event annotation
                seqs = [data.SequenceAnnotation(uuid=uuid.UUID(int=11), sequence=data.Sequence(uuid=uuid.UUID(int=12), sound_events=[a.sound_event for a in anns[: max(1, len(anns) // 2)]]))]
            ca = data.ClipAnnotation(uuid=uuid.UUID(int=10), clip=clip, sound_events=anns, sequences=seqs)
            kw = {"raise_on_time_geometries": raise_time} if fmt == "bbox" else {}
            out = A.annotation_from_clip_annotation(ca, "/x/annot.csv", fmt, ignore_errors=ignore_errors, cast_geometry=cast, value_only=True, **kw, **lkw)
            if fmt == "bbox":
                got = [(b.onset, b.offset, b.low_freq, b.high_freq, b.label) for b in getattr(out, "bboxes", [])]
            else:
                got = [(s.onset_s, s.offset_s, s.onset_sample, s.offset_sample, s.label) for s in out.seq.segments]
    except ValueError as e:
        if not any_err or ignore_errors:
            if any(r[0] == "ok" and fmt != "bbox" and not r[1] < r[2] for r in refs):
                ctx.ood("dependency_precondition:segment")
                return
            ctx.violate_exc("sequence_export:spurious_error", f"sequence_export:spurious_error:{fmt}", e, spec=spec)
        return
    except Exception as e:
        ctx.violate_exc("sequence_export:raises", f"sequence_export:raises:{fmt}:{type(e).__name__}", e, spec=spec)
        return
    if any_err and not ignore_errors:
        ctx.violate("sequence_export:error_policy", f"sequence_export:error_policy:{fmt}", observed=f"{len(got)} elements", expected="ValueError (ignore_errors=False)", spec=spec)
        return
    if got != want:
        ctx.violate("sequence_export:order_and_values", f"sequence_export:order_and_values:{fmt}", observed=[list(g) for g in got][:6], expected=[list(w) for w in want][:6], spec=spec)


def judge_roundtrip(ctx, elements, fmt, sr):
    """te = 1, value-only labels: export after import reproduces everything exactly."""
    import crowsetta

    from soundevent.io.crowsetta import annotation as A

    spec = {"kind": "roundtrip", "elements": elements, "fmt": fmt, "sr": sr}
    rec = _rec(sr)
    try:
        if fmt == "bbox":
            items = [crowsetta.BBox(onset=a, offset=b, low_freq=lo, high_freq=hi, label=l) for a, b, lo, hi, l in elements]
            annot = crowsetta.Annotation(annot_path="/x/a.csv", notated_path=rec.path, bboxes=items)
        else:
            items = [crowsetta.Segment.from_keyword(label=l, onset_s=a, offset_s=b, onset_sample=None, offset_sample=None) for a, b, l in elements]
            annot = crowsetta.Annotation(annot_path="/x/a.csv", notated_path=rec.path, seq=crowsetta.Sequence.from_segments(items))
    except Exception:
        ctx.ood("dependency_precondition:roundtrip")
        return
    ctx.mon("roundtrip")
    try:
        ca = A.annotation_to_clip_annotation(annot, recording=rec)
    except Exception as e:
        ctx.violate_exc("roundtrip:import_raises", f"roundtrip:import_raises:{fmt}:{type(e).__name__}", e, spec=spec)
        return
    if len(ca.sound_events) != len(elements):
        ctx.violate("import:one_annotation_per_element", f"import:one_annotation_per_element:{fmt}", observed=len(ca.sound_events), expected=len(elements), spec=spec)
        return
    for ann, el in zip(ca.sound_events, elements):
        c = list(ann.sound_event.geometry.coordinates)
        want = [el[0], el[2], el[1], el[3]] if fmt == "bbox" else [el[0], el[1]]
        if c != want:
            ctx.violate("import:order_and_coordinates", f"import:order_and_coordinates:{fmt}", observed=c, expected=want, spec=spec)
            return
    if fmt == "seq":
        ok = len(ca.sequences) == 1 and [s.uuid for s in ca.sequences[0].sequence.sound_events] == [a.sound_event.uuid for a in ca.sound_events]
        if not ok:
            ctx.violate("import:sequence_annotation", "import:sequence_annotation", observed=len(ca.sequences), expected="one sequence annotation holding the sound events in order", spec=spec)
    if ca.clip.start_time != 0 or ca.clip.end_time != rec.duration or ca.clip.recording != rec:
        ctx.violate("import:clip", "import:clip", observed=[ca.clip.start_time, ca.clip.end_time], expected=[0, rec.duration], spec=spec)
    try:
        back = A.annotation_from_clip_annotation(ca, "/x/a.csv", fmt, ignore_errors=False, value_only=True)
    except Exception as e:
        if fmt == "bbox" and any(el[3] > sr / 2 and el[2] >= sr / 2 for el in elements):
            ctx.ood("dependency_precondition:bbox")
            return
        ctx.violate_exc("roundtrip:export_raises", f"roundtrip:export_raises:{fmt}:{type(e).__name__}", e, spec=spec)
        return
    if fmt == "bbox":
        got = [[b.onset, b.offset, b.low_freq, b.high_freq, b.label] for b in getattr(back, "bboxes", [])]
        want = [[a, b, lo, min(hi, sr / 2), l] for a, b, lo, hi, l in elements]
    else:
        got = [[s.onset_s, s.offset_s, s.label] for s in back.seq.segments]
        want = [[a, b, l] for a, b, l in elements]
        smp = [[s.onset_sample, s.offset_sample] for s in back.seq.segments]
        wsmp = [[math.floor(a * sr), math.floor(b * sr)] for a, b, l in elements]
        if smp != wsmp:
            ctx.violate("roundtrip:samples", "roundtrip:samples", observed=smp[:4], expected=wsmp[:4], spec=spec)
    if got != want:
        ctx.violate("roundtrip:exact", f"roundtrip:exact:{fmt}", observed=got[:4], expected=want[:4], spec=spec)


LABELS = ["a", "b", "song", "ünï ✓", "with:colon", "with,comma", EMPTY, " spaced "]
SRS = [8000, 22050, 44100, 48000, 96000, 192000, 384000]
TES = [1.0, 2.0, 10.0, 0.5, 3.7]


def run(ctx):
    from soundevent import data

    rng = ctx.rng
    from rv.props import concurrent_jobs

    concurrent_jobs.run_some(ctx, "C10", quick=3, thorough=12)        # the same calls from a thread pool (rv/core/threads.py)
    ctx.must_monitors.append("concurrent_calls")
    ctx.rule = ("label cascades: full factorial of option presence x mapping hit/miss x tag function behaviour; imports: (times, samples, frequencies, sample rate, time expansion, adjust flag); "
                "exports: (geometry of any type or none, tags, cast / raise / ignore flags, label options); round trips; non-trivial = time expansion != 1 or a non-default option; distinct = distinct spec")
    ctx.assumptions += ["inputs stay inside crowsetta's own preconditions (onset < offset, low < high); its refusals are 'dependency_precondition', not violations",
                        "two option combinations on which the label documentation is ambiguous (explicit term or term_mapping hit together with a tag_mapping hit) are not judged",
                        "expected values use the same single float operation as documented, so comparisons are exact"]
    ctx.must_monitors += ["label_to_tags", "label_from_tags", "import_segment", "import_bbox", "export_segment", "export_bbox", "sequence_export", "roundtrip", "export_after_in_place_edit"]
    ctx.must_reach += ["io/crowsetta/labels.py::label_to_tags", "io/crowsetta/labels.py::label_from_tags", "io/crowsetta/labels.py::label_from_tag",
                       "io/crowsetta/segment.py::segment_to_annotation", "io/crowsetta/segment.py::segment_from_annotation",
                       "io/crowsetta/bbox.py::bbox_to_annotation", "io/crowsetta/bbox.py::bbox_from_annotation",
                       "io/crowsetta/sequence.py::sequence_to_annotations", "io/crowsetta/sequence.py::sequence_from_annotations",
                       "io/crowsetta/annotation.py::annotation_to_clip_annotation", "io/crowsetta/annotation.py::annotation_from_clip_annotation"]

    # ---- label -> tags: full factorial
    T = data.term_from_key("explicit_term")
    TM = data.term_from_key("mapped_term")
    for fn_mode, tmap, termmap, kmap, key, term, label in itertools.product(
            [None, "one", "list", "raises"], ["absent", "hit", "miss"], ["absent", "hit", "miss"], ["absent", "hit", "miss"], [None, "explicit"], [None, T], ["x", EMPTY]):
        o = {"tag_fn_mode": fn_mode, "key": key, "term": term,
             "tag_mapping": None if tmap == "absent" else ({"x": [_tag("m", "1"), _tag("m", "2")]} if tmap == "hit" else {"other": _tag("m", "1")}),
             "term_mapping": None if termmap == "absent" else ({"x": TM} if termmap == "hit" else {"other": TM}),
             "key_mapping": None if kmap == "absent" else ({"x": "mapped_key"} if kmap == "hit" else {"other": "mapped_key"})}
        if rng.random() < 0.3:
            o["fallback"] = "fb"
        if rng.random() < 0.3:
            # which labels count as "empty" is an option too: nothing at all, an empty list, other labels
            o["empty_labels"] = rng.choice([(), [], ["x"], ["NA"], [EMPTY, "x"], ("NA", EMPTY)])
        ctx.case(("label_to_tags", str(fn_mode), tmap, termmap, kmap, "key" if key else "nokey", "term" if term else "noterm"),
                 {"kind": "label_to_tags", "label": label, "options": _o_spec(o)}, nontrivial=any([fn_mode, key, term, tmap != "absent", termmap != "absent", kmap != "absent"]))
        judge_label_to_tags(ctx, label, o)
    ctx.exhaustive_subspaces.append("label_to_tags: tag_fn {absent, one, list, raises} x tag/term/key mapping {absent, hit, miss} x key x term x {label, empty label}")

    # ---- tags -> label: factorial
    tagsets = [[], [["species", "a"]], [["species", "a"], ["call", "b"]], [["call", "b"], ["species", "a"], ["species", "c"]]]
    for ts, seq_fn, label_fn, lmap, vo, sk, idx, sep in itertools.product(
            tagsets, [None, True], [None, True], ["absent", "hit", "miss"], [None, True, False], [None, "species", "missing"], [None, 0, 1, 4, 7, -2], [None, "|"]):
        if rng.random() > (1.0 if ctx.thorough else 0.35):
            continue
        o = {"seq_fn_mode": seq_fn, "label_fn_mode": label_fn, "value_only": vo, "select_by_key": sk, "index": idx, "separator": sep,
             "label_mapping": None if lmap == "absent" else ({_tag("species", "a"): "MAPPED"} if lmap == "hit" else {_tag("zzz", "q"): "MAPPED"})}
        ctx.case(("label_from_tags", len(ts), bool(seq_fn), bool(label_fn), lmap, str(vo), str(sk), str(idx), str(sep)), {"kind": "label_from_tags", "tags": ts, "options": _f_spec(o)})
        judge_label_from_tags(ctx, ts, o)

    # ---- imports
    for _ in range(ctx.scale(2000, 6000)):
        sr, te, adjust = rng.choice(SRS), rng.choice(TES), rng.random() < 0.7
        label = rng.choice(LABELS)
        if rng.random() < 0.5:
            a = rng.choice([0.0, 0.1, 1 / 3, rng.uniform(0, 100)]); b = a + rng.choice([0.001, 0.25, rng.uniform(0.01, 20)])
            if rng.random() < 0.5:
                ctx.case(("import_segment", "seconds", f"te{te}", adjust), {"kind": "import_segment", "onset_s": a, "offset_s": b, "sr": sr, "te": te, "adjust": adjust, "label": label}, nontrivial=te != 1)
                judge_import_segment(ctx, a, b, None, None, label, sr, te, adjust)
            else:
                s0 = rng.randrange(0, 10 ** 6); s1 = s0 + rng.randrange(1, 10 ** 5)
                ctx.case(("import_segment", "samples", f"te{te}", adjust), {"kind": "import_segment", "onset_sample": s0, "offset_sample": s1, "sr": sr, "te": te, "adjust": adjust, "label": label}, nontrivial=te != 1)
                judge_import_segment(ctx, None, None, s0, s1, label, sr, te, adjust)
            # the presence matrix: each end given in seconds, as a sample index, or both (seconds win when present;
            # the two need not agree), independently of the other end
            on_how, off_how = rng.choice(["s", "n", "both"]), rng.choice(["s", "n", "both"])
            if (on_how, off_how) not in (("s", "s"), ("n", "n")):
                fsr = sr / te
                a = rng.choice([0.0, 0.25003, rng.uniform(0, 50)]); b = a + rng.choice([0.001, 0.25, rng.uniform(0.01, 20)])
                s0 = int(a * fsr) + rng.choice([0, 0, 3, 1000]); s1 = max(s0 + 1, int(b * fsr) + rng.choice([0, 0, 5, 1000]))
                args = dict(onset_s=a if on_how != "n" else None, offset_s=b if off_how != "n" else None,
                            onset_sample=s0 if on_how != "s" else None, offset_sample=s1 if off_how != "s" else None)
                if args["onset_s"] is None and args["offset_s"] is not None and s0 / fsr / (te if adjust else 1) > b / (te if adjust else 1):
                    args["onset_sample"] = s0 = 0
                ctx.case(("import_segment", f"onset:{on_how}", f"offset:{off_how}", f"te{te}", adjust), dict(args, kind="import_segment", sr=sr, te=te, adjust=adjust, label=label))
                judge_import_segment(ctx, args["onset_s"], args["offset_s"], args["onset_sample"], args["offset_sample"], label, sr, te, adjust)
        else:
            a = rng.uniform(0, 100); b = a + rng.uniform(0.001, 10); lo = rng.uniform(0, 40000); hi = lo + rng.uniform(1, 50000)
            ctx.case(("import_bbox", f"te{te}", adjust), {"kind": "import_bbox", "onset": a, "offset": b, "low": lo, "high": hi, "sr": sr, "te": te, "adjust": adjust, "label": label}, nontrivial=te != 1)
            judge_import_bbox(ctx, a, b, lo, hi, label, sr, te, adjust)

    # ---- exports
    opt_sets = [{}, {"value_only": True}, {"index": 1}, {"index": 4}, {"index": -2}, {"select_by_key": "species"}, {"separator": "|"}, {"value_only": True, "index": 0}, {"empty_label": "NONE"},
                {"select_by_key": "species", "value_only": True}, {"label_fn_mode": True}, {"seq_fn_mode": True}]
    for _ in range(ctx.scale(2500, 8000)):
        typ = rng.choice(geoms.TYPES + [None])
        gs = None if typ is None else geoms.random_geom(rng, typ, rng.choice(["realistic", "dyadic", "edge"]))
        ts = rng.choice(tagsets)
        sr = rng.choice(SRS)
        o = rng.choice(opt_sets)
        cast = rng.random() < 0.6
        if rng.random() < 0.5:
            ctx.case(("export_segment", str(typ), cast, "+".join(sorted(o)) or "default"), {"kind": "export_segment", "g": gs, "tags": ts, "sr": sr, "cast": cast, "options": _f_spec(o)}, nontrivial=bool(o))
            judge_export_segment(ctx, gs, ts, sr, cast, o)
        else:
            rt = rng.random() < 0.5
            ctx.case(("export_bbox", str(typ), cast, rt, "+".join(sorted(o)) or "default"), {"kind": "export_bbox", "g": gs, "tags": ts, "sr": sr, "cast": cast, "raise_time": rt, "options": _f_spec(o)}, nontrivial=bool(o))
            judge_export_bbox(ctx, gs, ts, sr, cast, rt, o)

    # ---- sequences / clip annotations
    for _ in range(ctx.scale(900, 3000)):
        n = rng.randint(0, 6)
        items = []
        for _ in range(n):
            typ = rng.choice(["TimeInterval", "TimeInterval", "BoundingBox", "BoundingBox", "Polygon", "Point", "TimeStamp", None])
            items.append((None if typ is None else geoms.random_geom(rng, typ, "realistic"), rng.choice(tagsets)))
        fmt = rng.choice(["seq", "bbox", "seq_direct"])
        cast, ig, rt = rng.random() < 0.5, rng.random() < 0.5, rng.random() < 0.5
        ctx.case(("sequence_export", fmt, cast, ig, rt), {"kind": "sequence_export", "items": [[g, t] for g, t in items], "fmt": fmt, "cast": cast, "ignore_errors": ig, "raise_time": rt})
        judge_sequence_export(ctx, items, rng.choice(SRS), cast, ig, fmt, rt, label_raises=rng.random() < 0.3)

    # ---- round trips
    for _ in range(ctx.scale(900, 3000)):
        fmt = rng.choice(["seq", "bbox"])
        n = rng.randint(0, 8) if fmt == "bbox" else rng.randint(1, 8)
        sr = rng.choice(SRS)
        els = []
        t = 0.0
        for _ in range(n):
            a = t + rng.choice([0.0, rng.uniform(0, 3)]); b = a + rng.uniform(0.001, 2)
            if fmt == "seq":
                t = b
                els.append([a, b, rng.choice(LABELS)])
            else:
                lo = rng.uniform(0, sr / 2 - 10); hi = lo + rng.uniform(1, sr / 2 - lo) if rng.random() < 0.8 else lo + rng.uniform(1, sr)
                els.append([a, b, lo, hi, rng.choice(LABELS)])
        ctx.case(("roundtrip", fmt, min(n, 3)), {"kind": "roundtrip", "elements": els, "fmt": fmt, "sr": sr})
        judge_roundtrip(ctx, els, fmt, sr)


def _o_from_spec(o):
    """Rebuild label_to_tags options from their spec form (mappings are canonical: hit = key 'x', miss = key 'other')."""
    from soundevent import data

    out = {"tag_fn_mode": o.get("tag_fn_mode"), "key": o.get("key"), "fallback": o.get("fallback")}
    if o.get("term"):
        out["term"] = data.term_from_key(o["term"])
    if "tag_mapping" in o:
        out["tag_mapping"] = {"x": [_tag("m", "1"), _tag("m", "2")]} if "x" in o["tag_mapping"] else {"other": _tag("m", "1")}
    if "term_mapping" in o:
        tm = data.term_from_key("mapped_term")
        out["term_mapping"] = {"x": tm} if "x" in o["term_mapping"] else {"other": tm}
    if "key_mapping" in o:
        out["key_mapping"] = {"x": "mapped_key"} if "x" in o["key_mapping"] else {"other": "mapped_key"}
    if "empty_labels" in o:
        out["empty_labels"] = tuple(o["empty_labels"]["labels"]) if o["empty_labels"]["as"] == "tuple" else list(o["empty_labels"]["labels"])
    return out


def _f_from_spec(o):
    out = dict(o)
    if "label_mapping" in o:
        out["label_mapping"] = {_tag("species", "a"): "MAPPED"} if "species:a" in o["label_mapping"] else {_tag("zzz", "q"): "MAPPED"}
    return out


def replay(ctx, w):
    s = w["spec"]
    ctx.case("replay", s)
    k = s["kind"]
    if k == "label_to_tags":
        judge_label_to_tags(ctx, s["label"], _o_from_spec(s["options"]))
    elif k == "label_from_tags":
        judge_label_from_tags(ctx, s["tags"], _f_from_spec(s["options"]))
    elif k == "import_segment":
        judge_import_segment(ctx, s.get("onset_s"), s.get("offset_s"), s.get("onset_sample"), s.get("offset_sample"), s["label"], s["sr"], s["te"], s["adjust"])
    elif k == "import_bbox":
        judge_import_bbox(ctx, s["onset"], s["offset"], s["low"], s["high"], s["label"], s["sr"], s["te"], s["adjust"])
    elif k == "export_segment":
        judge_export_segment(ctx, s["g"], s["tags"], s["sr"], s["cast"], _f_from_spec(s["options"]))
    elif k == "export_bbox":
        judge_export_bbox(ctx, s["g"], s["tags"], s["sr"], s["cast"], s["raise_time"], _f_from_spec(s["options"]))
    elif k == "sequence_export":
        judge_sequence_export(ctx, [tuple(i) for i in s["items"]], s["sr"], s["cast"], s["ignore_errors"], s["fmt"], s.get("raise_time", True), label_raises=s.get("label_raises", False))
    elif k == "roundtrip":
        judge_roundtrip(ctx, s["elements"], s["fmt"], s["sr"])
