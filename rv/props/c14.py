"""C14 — clip segmentation tiles the clip on the hop lattice."""

from __future__ import annotations

import math
import uuid
from fractions import Fraction as F

from rv.core import ctx as _ctx
from rv.core import calling, instrument, scribble
from rv.core.tolerances import ULP_BAND_REL

ANCHORS = ("operations.py",)
THOROUGH_SHARDS = 12
AMBIENT_TESTS = ["tests/test_operations.py"]

_installed = False
_log: list = []  # materialised streams observed by the wrapper (ambient)


def install():
    """Generator function -> hand-written wrapper that materialises the stream."""
    global _installed
    if _installed:
        return

    def make(orig):
        def segment_clip(clip, duration, hop=None, include_incomplete=False):
            gen = orig(clip, duration, hop=hop, include_incomplete=include_incomplete)

            def stream():
                try:
                    items = list(gen)
                except ValueError as e:
                    _observe(clip, duration, hop, include_incomplete, None, e)
                    raise
                _observe(clip, duration, hop, include_incomplete, items, None)
                yield from items

            return stream()

        return segment_clip

    instrument.attach("soundevent.operations", "segment_clip", make)
    _installed = True


def _is_dyadic(*xs):
    for x in xs:
        d = F(x).denominator
        if d & (d - 1) or d > 2 ** 16:
            return False
    return True


def model(start, end, duration, hop, inc):
    """Exact expected windows [(s, e)], plus whether any boundary decision is ambiguous."""
    S, E, D, H = F(start), F(end), F(duration), F(hop)
    out = []
    amb = False
    band = F(ULP_BAND_REL) * max(abs(E), abs(D), abs(H), 1)
    i = 0
    while True:
        s = S + i * H
        if abs(s - E) <= band:      # (also exact equality: on non-dyadic inputs the float sum may land an ulp either side)
            amb = True
        if s >= E:
            break
        e = s + D
        if abs(e - E) <= band:
            amb = True
        if e > E:
            if not inc:
                break
            e = E
        out.append((s, e))
        i += 1
        if i > 200000:
            break
    return out, amb


def _observe(clip, duration, hop, inc, items, exc):
    c = _ctx.CURRENT
    if c is None:
        return
    spec = {"start": clip.start_time, "end": clip.end_time, "duration": duration, "hop": hop, "inc": bool(inc)}
    fin = all(isinstance(x, (int, float)) and math.isfinite(x) for x in (duration, hop if hop is not None else 1.0))
    if not fin:
        c.ood("non_finite")
        return
    h = duration if hop is None else hop
    c.mon("segment_clip.stream")
    if duration <= 0 or h <= 0:
        if exc is None:
            c.violate("rejects_nonpositive", "rejects_nonpositive", observed=f"{len(items)} segments", expected="ValueError", spec=spec)
        return
    if exc is not None:
        c.violate("spurious_rejection", "spurious_rejection", observed=str(exc), expected="segments", spec=spec)
        return
    want, amb = model(clip.start_time, clip.end_time, duration, h, inc)
    dy = _is_dyadic(clip.start_time, clip.end_time, duration, h)
    if amb and not dy:
        c.dc("boundary_ulp_band")
    elif len(items) != len(want):
        key = "window_count"
        # mechanism predicate for the floor(duration/hop) defect: windows are missing at the END only
        if len(items) < len(want):
            key = "window_count:missing_trailing_windows"
        c.violate("window_count", key, observed={"n": len(items), "last": [items[-1].start_time, items[-1].end_time] if items else None},
                  expected={"n": len(want), "last": [float(want[-1][0]), float(want[-1][1])] if want else None}, spec=spec)
    tol = 0 if dy else None
    seen = set()
    for i, seg in enumerate(items):
        s_exact = F(clip.start_time) + i * F(h)
        scale = max(abs(float(s_exact)), abs(clip.end_time), 1.0)
        t = 0.0 if dy else 4e-15 * scale * max(1, math.log2(i + 2))
        if abs(F(seg.start_time) - s_exact) > t:
            c.violate("lattice", "lattice", observed={"i": i, "start": seg.start_time}, expected=float(s_exact), spec=spec)
            break
        if seg.start_time < clip.start_time or seg.end_time > clip.end_time or seg.start_time > seg.end_time:
            c.violate("inside_parent", "inside_parent", observed=[seg.start_time, seg.end_time], expected=[clip.start_time, clip.end_time], spec=spec)
            break
        if seg.recording != clip.recording:
            c.violate("same_recording", "same_recording", observed=str(seg.recording.uuid), expected=str(clip.recording.uuid), spec=spec)
            break
        e_exact = s_exact + F(duration)
        complete = e_exact <= F(clip.end_time)
        if abs(e_exact - F(clip.end_time)) <= t and e_exact != F(clip.end_time):
            pass  # cannot tell complete from truncated
        elif complete:
            if abs(F(seg.end_time) - F(seg.start_time) - F(duration)) > 2 * t:
                c.violate("complete_duration", "complete_duration", observed={"i": i, "len": seg.end_time - seg.start_time}, expected=duration, spec=spec)
                break
        else:
            if not inc:
                c.violate("incomplete_emitted", "incomplete_emitted", observed={"i": i, "seg": [seg.start_time, seg.end_time]}, expected="not produced", spec=spec)
                break
            if seg.end_time != clip.end_time:
                c.violate("truncated_at_clip_end", "truncated_at_clip_end", observed=seg.end_time, expected=clip.end_time, spec=spec)
                break
        if seg.uuid in seen:
            c.violate("ids_distinct", "ids_distinct", observed=str(seg.uuid), expected="distinct within one call", spec=spec)
            break
        seen.add(seg.uuid)
    # coverage when hop <= duration and include_incomplete
    if inc and h <= duration and items and not (amb and not dy):
        if items[0].start_time != clip.start_time or items[-1].end_time != clip.end_time:
            c.violate("coverage", "coverage", observed=[items[0].start_time, items[-1].end_time], expected=[clip.start_time, clip.end_time], spec=spec)
        else:
            for a, b in zip(items, items[1:]):
                # floats: end_i = fl(start_i + d) and start_{i+1} = fl(start + (i+1) h) may differ by
                # rounding when hop == duration; a "gap" must exceed that to count (exact on dyadic inputs)
                slack = 0.0 if dy else 8e-15 * max(abs(b.start_time), 1.0) * max(1, math.log2(len(items) + 2))
                if b.start_time - a.end_time > slack:
                    c.violate("coverage", "coverage", observed={"gap": [a.end_time, b.start_time]}, expected="no gaps", spec=spec)
                    break
    c.mon("segment_clip.segments", len(items))


_REC = None


def _clip(start, end, uid=None):
    from soundevent import data

    global _REC
    if _REC is None:
        # recordings differ in things segmentation does not depend on (rate, channels, time expansion)
        _REC = [data.Recording(path="r.wav", duration=1000.0, channels=1, samplerate=8000, uuid=uuid.UUID(int=7)),
                data.Recording(path="bat.wav", duration=1000.0, channels=2, samplerate=384000, time_expansion=10.0, uuid=uuid.UUID(int=8)),
                data.Recording(path="slow.flac", duration=1000.0, channels=1, samplerate=22050, time_expansion=0.5, uuid=uuid.UUID(int=9))]
    rec = _REC[int(abs(start) * 4 + abs(end) * 2) % 3]
    return data.Clip(recording=rec, start_time=start, end_time=end, uuid=uid or uuid.UUID(int=11))


def judge(ctx, start, end, duration, hop, inc, ids=False):
    from soundevent import operations as O

    clip = _clip(start, end)
    spec = {"start": start, "end": end, "duration": duration, "hop": hop, "inc": inc}
    try:
        if ctx.evaluations % 5 == 0:
            # a caller that only wanted the first window (and never finishes the generator) must not
            # influence a later, complete segmentation of the same clip
            # (the unwrapped function: the stream monitor would otherwise drain the generator itself)
            it = instrument.original(O.segment_clip)(clip, duration, hop=hop, include_incomplete=inc)
            next(it, None)
            del it
        segs = list(O.segment_clip(clip, duration, hop=hop, include_incomplete=inc))
    except ValueError:
        return
    except Exception as e:
        ctx.violate_exc("unexpected_exception", f"unexpected_exception:{type(e).__name__}", e, spec=spec)
        return
    if ctx.every(spec, 5):
        # positionally in the documented order, with a numpy.bool_ / 0-1 flag and numpy / int numbers: the same call
        sig = lambda it: [(c_.start_time, c_.end_time, c_.uuid) for c_ in it]
        orig_fn = instrument.original(O.segment_clip)
        st0 = calling.outcome(lambda: sig(orig_fn(clip, duration, hop=hop, include_incomplete=inc)))
        for label, call in (("positional_in_documented_order", lambda: sig(orig_fn(clip, duration, hop, inc))),
                            ("boolish_flag", lambda: sig(orig_fn(clip, duration, hop=hop, include_incomplete=calling.boolish(ctx.rng, inc)))),
                            ("numlike_numbers", lambda: sig(orig_fn(clip, calling.numlike(ctx.rng, duration), hop=calling.numlike(ctx.rng, hop), include_incomplete=inc)))):
            st1 = calling.outcome(call)
            ctx.mon("calling_conventions")
            if st1 != st0:
                ctx.violate("calling_convention", f"calling_convention:segment_clip:{label}", observed=[st1[0], len(st1[1] or [])], expected=[st0[0], len(st0[1] or [])], spec=spec)
    if ctx.every(spec, 8):
        try:
            # two lazily consumed segmentations alive at once (zip over two clips): each stream judged on its own
            orig = instrument.original(O.segment_clip)
            other = _clip(start + 0.5, end + 1.25, uid=uuid.UUID(int=12))
            ga, gb = iter(orig(clip, duration, hop=hop, include_incomplete=inc)), iter(orig(other, duration, hop=hop, include_incomplete=not inc))
            ia, ib, live = [], [], [True, True]
            while any(live):
                for k, (g, acc) in enumerate(((ga, ia), (gb, ib))):
                    if live[k]:
                        try:
                            acc.append(next(g))
                        except StopIteration:
                            live[k] = False
            ctx.mon("interleaved_streams")
            _observe(clip, duration, hop, inc, ia, None)
            _observe(other, duration, hop, not inc, ib, None)
            # the caller owns the returned clips: it edits them and segments an equal clip again
            victim = list(O.segment_clip(_clip(start, end), duration, hop=hop, include_incomplete=inc))
            if scribble.scribble(victim) or True:
                for sg in victim[:3]:
                    if not hasattr(sg, "start_time"):
                        continue
                    try:
                        sg.start_time, sg.end_time = sg.end_time + 100.0, sg.end_time + 101.0
                    except Exception:
                        pass
                ctx.mon("repeat_after_result_edit")
                list(O.segment_clip(_clip(start, end), duration, hop=hop, include_incomplete=inc))
        except ValueError:
            pass
        except Exception as e:
            ctx.violate_exc("unexpected_exception", f"unexpected_exception:{type(e).__name__}", e, spec=spec)
    if ids and segs:
        ctx.mon("id_determinism")
        again = list(O.segment_clip(clip, duration, hop=hop, include_incomplete=inc))
        copy = list(O.segment_clip(_clip(start, end), duration, hop=hop, include_incomplete=inc))
        if [s.uuid for s in segs] != [s.uuid for s in again]:
            ctx.violate("ids_deterministic", "ids_deterministic", observed="two calls differ", spec=spec)
        if [s.uuid for s in segs] != [s.uuid for s in copy]:
            ctx.violate("ids_depend_only_on_parent_id_and_bounds", "ids_depend_only_on_parent_id_and_bounds", observed="copy of the clip gives other ids", spec=spec)
        if any(s.uuid == clip.uuid for s in segs) and len(segs) > 1:
            ctx.violate("ids_distinct", "ids_distinct", observed="segment reuses parent id", spec=spec)
        # "a function of the parent identifier and the bounds": the same delivered window obtained through another
        # duration / hop (here: the truncated last window re-obtained as a complete one) carries the same identifier
        last = segs[-1]
        if inc and _is_dyadic(start, end, duration, hop if hop is not None else duration) and last.end_time == end and last.end_time - last.start_time < duration and last.end_time > last.start_time:
            d2 = last.end_time - last.start_time
            h2 = last.start_time - start
            try:
                other = list(O.segment_clip(clip, d2, hop=(h2 if h2 > 0 else None), include_incomplete=False))
            except Exception:
                other = []
            twin = [s for s in other if s.start_time == last.start_time and s.end_time == last.end_time]
            if twin:
                ctx.mon("id_same_bounds_other_route")
                if twin[0].uuid != last.uuid:
                    ctx.violate("ids_depend_only_on_parent_id_and_bounds", "ids_depend_only_on_parent_id_and_bounds:same_window_through_other_duration", observed=[str(last.uuid), str(twin[0].uuid)],
                                expected="equal identifiers for equal parent and bounds", spec=dict(spec, other_route={"duration": d2, "hop": h2}))


def _cls(L, D, H, inc):
    r = "hop<dur" if H < D else "hop=dur" if H == D else "hop>dur"
    m = "exact" if (F(L) / F(H)).denominator == 1 else "inexact"
    z = "empty" if L == 0 else "short" if L < D else "long"
    return (r, m, z, "inc" if inc else "complete")


def run(ctx):
    install()
    rng = ctx.rng
    from rv.props import concurrent_jobs

    concurrent_jobs.run_some(ctx, "C14")        # the same calls from a thread pool (rv/core/threads.py)
    ctx.must_monitors.append("concurrent_calls")
    ctx.rule = ("(clip start, end, duration, hop, include_incomplete); exhaustive dyadic grid + random decimals; "
                "non-trivial = at least two segments expected; distinct = distinct parameter tuple")
    ctx.assumptions += ["finite parameters", "random decimal cases with a window boundary within 1e-12 (relative) of the clip end are don't-care for the count"]
    ctx.must_monitors += ["segment_clip.stream", "segment_clip.segments", "id_determinism"]
    if ctx.shard == 0:
        for start, n_windows, duration, hop, inc in [(0.0, 2 ** 20 + 77, 2.0 ** -6, 2.0 ** -7, False)] + ([(16.0, 1200003, 2.0 ** -5, 2.0 ** -5, True)] if ctx.thorough else []):
            ctx.case(("many_windows", "inc" if inc else "complete"), {"kind": "many_windows", "start": start, "n_windows": n_windows, "duration": duration, "hop": hop, "inc": inc})
            judge_many_windows(ctx, start, n_windows, duration, hop, inc)
    ctx.must_reach += ["operations.py::segment_clip"]

    # directed: rejections + the witnesses of the floor(duration/hop) defect
    directed = [
        (0.0, 10.0, 3.0, None, True), (0.0, 10.0, 3.0, None, False), (0.0, 9.0, 1.0, 4.0, True), (0.0, 9.0, 1.0, 4.0, False),
        (0.0, 0.7, 0.1, None, True), (0.0, 0.7, 0.1, None, False), (0.0, 10.0, 2.0, 1.0, False),
        (1.0, 1.0, 1.0, None, True), (0.0, 5.0, 0.0, None, False), (0.0, 5.0, -1.0, None, False),
        (0.0, 5.0, 1.0, 0.0, False), (0.0, 5.0, 1.0, -0.5, True), (0.0, 0.5, 1.0, None, True), (0.0, 0.5, 1.0, None, False),
    ]
    # rejection of a non-positive duration / hop holds for every clip: empty, shorter than a window, far along the recording
    for s_, e_ in [(2.0, 2.0), (0.0, 0.0), (7.25, 7.5), (500.0, 510.0)]:
        for d_, h_ in [(0.0, None), (-1.0, None), (1.0, 0.0), (1.0, -0.5), (0.0, 0.0), (1.0, 0), (0, 1.0)]:
            for inc_ in (False, True):
                directed.append((s_, e_, d_, h_, inc_))
    for s, e, d, h, inc in directed:
        ctx.case(("directed",) + (_cls(e - s, d, h if h else d, inc) if d > 0 and (h is None or h > 0) else ("reject",)),
                 {"start": s, "end": e, "duration": d, "hop": h, "inc": inc})
        judge(ctx, s, e, d, h, inc, ids=True)

    if ctx.thorough:
        Ls, Ds, Hs = range(0, 41), range(1, 41), [None] + list(range(1, 41))
        ctx.exhaustive_subspaces.append("start in {0,1/2,3} x length k/4<=10 x duration k/4<=10 x hop in {None, k/4<=10} x flag")
    else:
        Ls, Ds, Hs = range(0, 21), range(1, 13), [None] + list(range(1, 13))
        ctx.exhaustive_subspaces.append("start in {0,1/2,3} x length k/4<=5 x duration k/4<=3 x hop in {None, k/4<=3} x flag")
    k = 0
    for start in (0.0, 0.5, 3.0):
        for L in Ls:
            for D in Ds:
                for H in Hs:
                    k += 1
                    if k % ctx.nshards != ctx.shard:
                        continue
                    for inc in (False, True):
                        end, d, h = start + L / 4, D / 4, (None if H is None else H / 4)
                        hh = d if h is None else h
                        want, _ = model(start, end, d, hh, inc)
                        ctx.case(("grid",) + _cls(L / 4, d, hh, inc),
                                 {"start": start, "end": end, "duration": d, "hop": h, "inc": inc}, nontrivial=len(want) >= 2)
                        judge(ctx, start, end, d, h, inc, ids=(k % 37 == 0))

    # exact near misses: the clip ends a hair (2**-k) before / after the end of a window on the hop lattice; every value
    # is dyadic, so the model decides exactly which windows fit (no tolerance applies)
    for _ in range(ctx.scale(400, 3000)):
        start = rng.choice([0.0, 1.0, 0.5, 16.0])
        d = rng.choice([0.25, 1.0, 2.0, 4.0]); h = rng.choice([None, 0.25, 1.0, 2.0])
        hh = d if h is None else h
        nwin = rng.randint(1, 6)
        eps = rng.choice([-1, 1, 0]) * 2.0 ** -rng.choice([20, 30, 32, 40, 45])
        end = start + (nwin - 1) * hh + d + eps
        inc = rng.random() < 0.4
        want, _ = model(start, end, d, hh, inc)
        ctx.case(("near_miss", "short" if eps < 0 else "long" if eps > 0 else "exact") + _cls(end - start, d, hh, inc),
                 {"start": start, "end": end, "duration": d, "hop": h, "inc": inc}, nontrivial=True)
        judge(ctx, start, end, d, h, inc)
    for _ in range(ctx.scale(1500, 8000)):
        style = rng.choice(["decimal", "decimal", "free", "tiny_hop", "samples", "submilli"])
        if style == "decimal":
            start = round(rng.choice([0, 0.1, 0.3, 1.7, 12.3]), 1)
            L = round(rng.choice([0.7, 1.0, 2.5, 9.9, 10.0, 59.9, 60.0]), 1)
            d = rng.choice([0.1, 0.2, 0.3, 0.5, 0.7, 1.0, 2.5, 3.0])
            h = rng.choice([None, 0.1, 0.2, 0.3, 0.05, 0.7, 1.0, 4.0])
        elif style == "samples":
            sr = rng.choice([8000, 22050, 44100, 48000])
            start = rng.randrange(0, 5 * sr) / sr
            L = rng.randrange(1, 3 * sr) / sr
            d = rng.choice([256, 512, 1024, 4096]) / sr
            h = rng.choice([None, 128 / sr, 256 / sr, 512 / sr])
        elif style == "submilli":
            # ultrasonic work: windows of a few ms, hops well below one millisecond
            start = rng.choice([0.0, 1.0, 12.3456]); L = rng.choice([0.01, 0.05, 0.0503])
            d = rng.choice([0.002, 0.004, 0.0005]); h = rng.choice([0.00025, 0.0005, 0.0001, 1 / 8192])
        elif style == "tiny_hop":
            start = rng.uniform(0, 10); L = rng.uniform(0.5, 2); d = rng.uniform(0.1, 1.0); h = rng.uniform(0.003, 0.02)
        else:
            start = rng.uniform(0, 100); L = rng.uniform(0, 30); d = rng.uniform(0.01, 10); h = rng.choice([None, rng.uniform(0.01, 12)])
        inc = rng.random() < 0.5
        end = start + L
        hh = d if h is None else h
        want, _ = model(start, end, d, hh, inc)
        if len(want) > 5000:
            continue
        ctx.case(("random", style) + _cls(L, d, hh, inc), {"start": start, "end": end, "duration": d, "hop": h, "inc": inc}, nontrivial=len(want) >= 2)
        judge(ctx, start, end, d, h, inc, ids=rng.random() < 0.05 or style == "submilli")


def judge_many_windows(ctx, start, n_windows, duration, hop, inc):
    """'For every clip length and hop': one call that yields more than a million windows (hours of audio at a hop of
    milliseconds), consumed as a stream through the un-instrumented function and judged window by window against the
    hop lattice (all values dyadic: exact)."""
    from soundevent import operations as OP

    end = start + (n_windows - 1) * hop + duration
    spec = {"kind": "many_windows", "start": start, "n_windows": n_windows, "duration": duration, "hop": hop, "inc": inc}
    clip = _clip(start, end)
    k, bad = 0, None
    try:
        for c in instrument.original(OP.segment_clip)(clip, duration=duration, hop=hop, include_incomplete=inc):
            if bad is None and (c.start_time != start + k * hop or c.end_time != min(start + k * hop + duration, end) or c.recording is not clip.recording and c.recording != clip.recording):
                bad = (k, c.start_time, c.end_time)
            k += 1
    except Exception as e:
        ctx.violate_exc("raises", f"raises:{type(e).__name__}", e, spec=spec)
        return
    ctx.mon("segment_clip.many_windows")
    # complete windows: n_windows; with include_incomplete the trailing windows that start before the end are added
    want = n_windows if not inc else n_windows + (math.ceil((end - start) / hop) - n_windows)
    if bad is not None:
        ctx.violate("lattice", "lattice:many_windows", observed=list(bad), expected=[bad[0], start + bad[0] * hop, min(start + bad[0] * hop + duration, end)], spec=spec)
    if k != want:
        ctx.violate("count", "count:many_windows", observed=k, expected=want, spec=spec)


def replay(ctx, w):
    install()
    s = w["spec"]
    ctx.case("replay", s)
    if s.get("kind") == "many_windows":
        judge_many_windows(ctx, s["start"], s["n_windows"], s["duration"], s["hop"], s["inc"])
        return
    judge(ctx, s["start"], s["end"], s["duration"], s["hop"], s["inc"], ids=True)
