"""C03 — geometry validation accepts exactly the valid geometries and normalises them."""

from __future__ import annotations

import collections
import copy
import itertools
import json
import math
from types import SimpleNamespace

import numpy as np

from rv.gen import geoms

ANCHORS = ("data/geometries.py",)
THOROUGH_SHARDS = 10
MAXF = geoms.MAXF
PATHS = ("constructor", "dict", "attributes", "json")


# --------------------------------------------------- reference predicate / NF
def _num(x):
    return isinstance(x, (int, float)) and not isinstance(x, bool) and math.isfinite(x)


def _time(x):
    return _num(x) and x >= 0


def _freq(x):
    return _num(x) and 0 <= x <= MAXF


def _point(p):
    return isinstance(p, list) and len(p) == 2 and _time(p[0]) and _freq(p[1])


def _points(ps, n):
    return isinstance(ps, list) and len(ps) >= n and all(_point(p) for p in ps)


def ref_valid(tag, c) -> bool:
    if tag == "TimeStamp":
        return _time(c)
    if tag == "TimeInterval":
        return isinstance(c, list) and len(c) == 2 and _time(c[0]) and _time(c[1]) and c[0] <= c[1]
    if tag == "Point":
        return _point(c)
    if tag == "BoundingBox":
        return isinstance(c, list) and len(c) == 4 and _time(c[0]) and _freq(c[1]) and _time(c[2]) and _freq(c[3])
    if tag == "LineString":
        return _points(c, 2)
    if tag == "MultiPoint":
        return _points(c, 1)
    if tag == "Polygon":
        return isinstance(c, list) and len(c) >= 1 and all(_points(r, 3) for r in c)
    if tag == "MultiLineString":
        return isinstance(c, list) and len(c) >= 1 and all(_points(l, 2) and l[0][0] < l[-1][0] for l in c)
    if tag == "MultiPolygon":
        return (isinstance(c, list) and len(c) >= 1 and
                all(isinstance(p, list) and len(p) >= 1 and all(_points(r, 3) for r in p) for p in c))
    return False


def ref_normal(tag, c):
    if tag == "BoundingBox":
        t0, f0, t1, f1 = c
        if t0 > t1:
            t0, t1 = t1, t0
        if f0 > f1:
            f0, f1 = f1, f0
        return [t0, f0, t1, f1]
    if tag == "LineString" and c[0][0] > c[-1][0]:
        return c[::-1]
    return c


def _same(a, b):
    if isinstance(a, (list, tuple)) and isinstance(b, (list, tuple)):
        return len(a) == len(b) and all(_same(x, y) for x, y in zip(a, b))
    if isinstance(a, (list, tuple)) or isinstance(b, (list, tuple)):
        return False
    return float(a) == float(b)


def check_instance(ctx, g, where="ambient"):
    """Normal-form walker: a geometry object that exists satisfies predicate + normal form."""
    from soundevent import data

    ctx.mon("normal_form_walker")
    tag = getattr(g, "type", None)
    c = geoms._plain(g.coordinates)
    spec = {"kind": "instance", "where": where, "g": {"type": tag, "coordinates": c}}
    cls = getattr(data, tag, None) if tag in geoms.TYPES else None      # the stock class of that name (not the library's own dispatch table)
    if cls is None or not isinstance(g, cls):      # "an instance of the class named by its type tag" (a subclass instance is one)
        ctx.violate("instance:class_matches_tag", "instance:class_matches_tag", observed=type(g).__name__, expected=tag, spec=spec)
        return
    if not ref_valid(tag, c):
        ctx.violate("instance:valid", f"instance:valid:{tag}", observed="object exists", expected="reference predicate false", spec=spec)
        return
    if not _same(c, ref_normal(tag, c)):
        ctx.violate("instance:normal_form", f"instance:normal_form:{tag}", observed=c, expected=ref_normal(tag, c), spec=spec)


# ------------------------------------------------------------------- judging
CONTAINERS = ("tuple_inner", "tuple_all", "deque_inner", "mixed", "np_scalars", "decimal", "fraction")


def _numtype(x, kind):
    """The same real number held as another numeric type (numpy scalars from array code, Decimal / Fraction from
    exact arithmetic); conversions below preserve the value exactly."""
    import decimal
    import fractions

    if isinstance(x, bool) or not isinstance(x, (int, float)):
        return x
    if kind == "np_scalars":
        if isinstance(x, int):
            return np.int64(x) if abs(x) < 2 ** 62 else x
        f32 = np.float32(x)
        return f32 if float(f32) == x else np.float64(x)
    if isinstance(x, float) and not math.isfinite(x):
        return x
    return decimal.Decimal(x) if kind == "decimal" else fractions.Fraction(x)


def _contain(c, container, depth=0):
    """The same numeric structure handed over in other sequence containers than lists (``list(zip(times, freqs))``
    gives a list of tuples, shapely coords are tuples, a ring buffer is a deque)."""
    if container in ("np_scalars", "decimal", "fraction"):
        return [_contain(v, container, depth + 1) for v in c] if isinstance(c, list) else _numtype(c, container)
    if container == "list" or not isinstance(c, list):
        return c
    leaf = all(not isinstance(v, list) for v in c)
    inner = [_contain(v, container, depth + 1) for v in c]
    if container == "tuple_all" or (container == "tuple_inner" and leaf) or (container == "mixed" and depth % 2 == 1):
        return tuple(inner)
    if container == "deque_inner" and leaf:
        return collections.deque(inner)
    return inner


_ATTR_KIND = [0]


def _attr_object(tag, coords):
    """An object exposing ``type`` and ``coordinates`` as attributes, the ways objects do: a namespace, a plain instance,
    a dataclass, a slotted class, a named tuple (a database row), a class attribute plus a property (an ORM adapter)."""
    import collections
    import dataclasses

    _ATTR_KIND[0] += 1
    k = _ATTR_KIND[0] % 7
    if k == 1:
        class Shape:
            pass
        o = Shape(); o.type = tag; o.coordinates = coords
        return o
    if k == 2:
        return dataclasses.make_dataclass("Row", [("type", str), ("coordinates", object)])(tag, coords)
    if k == 3:
        class Slotted:
            __slots__ = ("type", "coordinates")

            def __init__(self, t, c):
                self.type, self.coordinates = t, c
        return Slotted(tag, coords)
    if k == 4:
        return collections.namedtuple("Record", ["type", "coordinates"])(tag, coords)
    if k == 5:
        class Adapter:
            type = tag

            def __init__(self, c):
                self._c = c

            @property
            def coordinates(self):
                return self._c
        return Adapter(coords)
    if k == 6:
        class Lazy:
            def __getattr__(self, name):
                if name == "type":
                    return tag
                if name == "coordinates":
                    return coords
                raise AttributeError(name)
        return Lazy()
    return SimpleNamespace(type=tag, coordinates=coords)


def _attempt(path, tag, coords, container="list"):
    from soundevent import data

    cls = getattr(data, tag)        # the stock class of that name
    if path != "json":
        coords = _contain(copy.deepcopy(coords), container)
    try:
        if path == "constructor":
            return "ok", cls(coordinates=copy.deepcopy(coords))
        if path == "dict":
            return "ok", data.geometry_validate({"type": tag, "coordinates": copy.deepcopy(coords)}, mode="dict")
        if path == "attributes":
            return "ok", data.geometry_validate(_attr_object(tag, copy.deepcopy(coords)), mode="attributes")
        return "ok", data.geometry_validate(json.dumps({"type": tag, "coordinates": coords}), mode="json")
    except Exception as e:  # classified below
        return "exc", e


def judge(ctx, tag, coords, paths=PATHS, container="list"):
    from pydantic import ValidationError

    from soundevent import data

    want = ref_valid(tag, coords)
    spec = {"kind": "validate", "type": tag, "coordinates": coords}
    if container != "list":
        spec["container"] = container
        ctx.mon("attempt.other_containers")
    outcomes = {}
    for path in paths:
        st, val = _attempt(path, tag, coords, container)
        ctx.mon(f"attempt.{path}")
        outcomes[path] = st
        sp = dict(spec, path=path)
        if st == "exc":
            ok_exc = isinstance(val, ValidationError) if path == "constructor" else isinstance(val, ValueError)
            if want:
                ctx.violate_exc("rejects_valid", f"rejects_valid:{tag}:{path}", val, spec=sp)
            elif not ok_exc:
                ctx.violate_exc("rejection_is_validation_error", f"rejection_is_validation_error:{tag}:{path}:{type(val).__name__}", val, spec=sp)
            continue
        g = val
        if not want:
            ctx.violate("accepts_invalid", f"accepts_invalid:{tag}:{path}", observed=geoms._plain(getattr(g, "coordinates", None)), expected="validation error", spec=sp)
            continue
        cls = data.geometries.GEOMETRY_MAPPING[tag]
        if type(g) is not cls or g.type != tag:
            ctx.violate("class_matches_tag", f"class_matches_tag:{tag}:{path}", observed=[type(g).__name__, g.type], expected=tag, spec=sp)
            continue
        nf = ref_normal(tag, coords)
        if not _same(geoms._plain(g.coordinates), nf):
            ctx.violate("normal_form", f"normal_form:{tag}:{path}", observed=geoms._plain(g.coordinates), expected=nf, spec=sp)
            continue
        if ctx.every(sp, 3):
            # the caller owns an accepted geometry: it drags it (coordinates edited in place); validating the same
            # input again afterwards yields the normal form of THAT INPUT, whatever happened to the earlier object
            try:
                from rv.core import scribble

                victim = _attempt(path, tag, coords, container)[1]
                if scribble.scribble(victim.coordinates) if isinstance(victim.coordinates, list) else False:
                    ctx.mon("revalidate_after_result_edit")
                    st2, g2 = _attempt(path, tag, coords, container)
                    if st2 != "ok" or not _same(geoms._plain(g2.coordinates), nf):
                        ctx.violate("normal_form", f"normal_form:{tag}:{path}:after_caller_edited_earlier_result",
                                    observed=geoms._plain(getattr(g2, "coordinates", None)) if st2 == "ok" else repr(g2)[:200], expected=nf, spec=sp)
                        continue
            except Exception as e:
                ctx.violate_exc("rejects_valid", f"rejects_valid:{tag}:{path}:on_repeat", e, spec=sp)
                continue
        try:
            # a geometry that has merely been looked at (notebook display, repr, dumps) is still the same geometry
            for look in ("_repr_html_", "__repr__", "__str__", "model_dump", "model_dump_json", "geom_type"):
                try:
                    getattr(g, look)()
                except Exception:
                    pass
            again = data.geometry_validate(g.model_dump_json())
            if again != g or type(again) is not type(g):
                ctx.violate("json_roundtrip", f"json_roundtrip:{tag}:{path}", observed=geoms._plain(again.coordinates), expected=geoms._plain(g.coordinates), spec=sp)
        except Exception as e:
            ctx.violate_exc("json_roundtrip", f"json_roundtrip:{tag}:{path}:raises", e, spec=sp)
    ctx.mon("paths_agree")
    if len(set(outcomes.values())) > 1:
        ctx.violate("paths_agree", f"paths_agree:{tag}", observed=outcomes, expected="identical outcome on all four paths", spec=spec)


# ------------------------------------------------------------------ workload
EPS = 1e-9
HOSTILE = [-EPS, -0.0, 0, 0.0, MAXF, float(MAXF), MAXF + EPS * MAXF, MAXF + 1, -1, -1e-300, 5e-324, 2 * MAXF, 1e12]


def _paths_to_lists(c, prefix=()):
    """All index paths to list nodes (including root when it is a list)."""
    out = []
    if isinstance(c, list):
        out.append(prefix)
        for i, v in enumerate(c):
            out += _paths_to_lists(v, prefix + (i,))
    return out


def _paths_to_nums(c, prefix=()):
    if isinstance(c, list):
        out = []
        for i, v in enumerate(c):
            out += _paths_to_nums(v, prefix + (i,))
        return out
    return [prefix]


def _get(c, path):
    for i in path:
        c = c[i]
    return c


def _set(c, path, val):
    if not path:
        return val
    c = copy.deepcopy(c)
    node = c
    for i in path[:-1]:
        node = node[i]
    node[path[-1]] = val
    return c


def mutate(rng, tag, coords):
    """Returns (operator name, mutated coordinates)."""
    ops = ["number", "number", "number", "drop", "add", "wrap", "unwrap", "empty", "truncate1", "truncate2",
           "reverse", "equal_ends", "int_for_float", "none", "ends_a_hair_apart", "ends_a_hair_apart"]
    op = rng.choice(ops)
    c = copy.deepcopy(coords)
    if op == "none":
        return op, c
    if op in ("number", "int_for_float") and not _paths_to_nums(c):
        return "none", c
    if op == "number":
        ps = _paths_to_nums(c)
        p = rng.choice(ps)
        return f"number:{'time' if (not p or p[-1] in (0, 2) and tag in ('BoundingBox',) or (p and p[-1] == 0)) else 'freq'}", _set(c, p, rng.choice(HOSTILE))
    if op == "int_for_float":
        ps = _paths_to_nums(c)
        p = rng.choice(ps)
        return op, _set(c, p, int(_get(c, p)))
    if op == "ends_a_hair_apart":
        # the start a hair AFTER the end (one ulp, 1e-12 or 1e-10 relative): reversed is reversed, however slightly
        import math as _m

        def later(x):
            x = float(x)
            return rng.choice([_m.nextafter(x, _m.inf), x * (1 + 1e-12) if x else 5e-324, x * (1 + 1e-10) if x else 1e-300, x + 1e-9])
        if tag == "TimeInterval":
            return op, [later(c[1]), float(c[1])]
        if tag == "BoundingBox":
            k = rng.choice([0, 1])
            c2 = [float(v) for v in c]
            c2[k] = later(c2[k + 2])
            if k == 1 and c2[1] > MAXF:
                c2[1], c2[3] = float(MAXF), _m.nextafter(float(MAXF), 0.0)
            return op, c2
        if tag == "LineString":
            c2 = copy.deepcopy(c)
            c2[0][0] = later(c2[-1][0])
            return op, c2
        if tag == "MultiLineString":
            c2 = copy.deepcopy(c)
            ln = rng.choice(c2)
            ln[0][0] = later(ln[-1][0])
            return op, c2
        return "none", c
    lists = _paths_to_lists(c)
    if not lists:
        if op == "wrap":
            return op, [c]
        return "number:time", rng.choice(HOSTILE)
    p = rng.choice(lists)
    node = _get(c, p)
    if op == "drop" and node:
        node = node[:]
        del node[rng.randrange(len(node))]
        return op, _set(c, p, node)
    if op == "add" and node:
        node = node[:] + [copy.deepcopy(rng.choice(node))]
        return op, _set(c, p, node)
    if op == "wrap":
        return op, _set(c, p, [node])
    if op == "unwrap" and node:
        return op, _set(c, p, node[0])
    if op == "empty":
        return op, _set(c, p, [])
    if op == "truncate1":
        return op, _set(c, p, node[:1])
    if op == "truncate2":
        return op, _set(c, p, node[:2])
    if op == "reverse":
        return op, _set(c, p, node[::-1])
    if op == "equal_ends" and len(node) >= 2 and isinstance(node[0], list) and len(node[0]) == 2 and not isinstance(node[0][0], list):
        node = copy.deepcopy(node)
        node[-1][0] = node[0][0]
        return op, _set(c, p, node)
    return "none", c


def _grid(tag, vals):
    V = vals
    if tag == "TimeStamp":
        return [v for v in V]
    if tag in ("TimeInterval", "Point"):
        return [list(p) for p in itertools.product(V, repeat=2)]
    if tag == "BoundingBox":
        return [list(p) for p in itertools.product(V, repeat=4)]
    if tag == "LineString":
        return [[[a, b], [c, d]] for a, b, c, d in itertools.product(V, repeat=4)]
    if tag == "MultiPoint":
        return [[[a, b]] for a, b in itertools.product(V, repeat=2)] + [[[a, b], [c, d]] for a, b, c, d in itertools.product(V, repeat=4)]
    if tag == "MultiLineString":
        return [[[[a, b], [c, d]]] for a, b, c, d in itertools.product(V, repeat=4)]
    if tag == "Polygon":
        return [[[[a, b], [c, d], [e, f]]] for a, b, c, d, e, f in itertools.product(V, repeat=6)]
    if tag == "MultiPolygon":
        return [[[[[a, b], [c, d], [e, f]]]] for a, b, c, d, e, f in itertools.product(V, repeat=6)]
    return []


_APP_CLASSES: dict = {}


def _define_application_subclasses():
    from soundevent import data

    if _APP_CLASSES:
        return
    for tag in geoms.TYPES:
        base = getattr(data, tag)
        # one that only adds behaviour, then one with a mandatory extra field
        _APP_CLASSES[tag] = (type("Plain" + tag, (base,), {"__module__": __name__, "describe": lambda self: self.type}),
                             type("Annotated" + tag, (base,), {"__annotations__": {"annotator": str}, "__module__": __name__}))


def run(ctx):
    rng = ctx.rng
    from rv.props import concurrent_jobs

    concurrent_jobs.run_some(ctx, "C03")        # the same calls from a thread pool (rv/core/threads.py)
    ctx.must_monitors.append("concurrent_calls")
    ctx.rule = ("(type tag, coordinate structure) attempted through constructor / dict / attributes / json; mutation operators on valid bases, "
                "an exhaustive grid of minimal shapes, tag/coordinate mismatches; non-trivial = a mutation was applied; distinct = distinct structure")
    ctx.assumptions += ["coordinates are JSON numbers (int/float, finite), lists and nothing else (pydantic's lax string/bool coercions are outside 'numeric coordinate structure')"]
    ctx.must_monitors += [f"attempt.{p}" for p in PATHS] + ["paths_agree", "normal_form_walker"]
    ctx.must_reach += ["data/geometries.py::geometry_validate"] + [
        f"data/geometries.py::{c}._validate_coordinates" for c in ("Point", "LineString", "Polygon", "BoundingBox", "MultiPoint", "MultiLineString", "MultiPolygon")
    ] + ["data/geometries.py::TimeStamp._positive_times", "data/geometries.py::TimeInterval._validate_time_interval",
         "data/geometries.py::LineString._is_ordered_by_time", "data/geometries.py::MultiLineString._each_line_is_ordered_by_time"]

    # configuration: the application has classes of its own derived from the library's (a box with a mandatory label, a
    # contour with provenance).  They inherit the type tag; defining them must not change what a plain tagged dict /
    # JSON text / attribute object validates to (the class named by its type tag), nor which inputs are accepted.
    _define_application_subclasses()
    ctx.mon("application_subclasses_defined")

    # exhaustive grid of minimal shapes
    full = [-1, 0, 1, MAXF, MAXF + 1]
    small = [-1, 0, MAXF, MAXF + 1]
    k = 0
    for tag in geoms.TYPES:
        vals = full
        ctx.exhaustive_subspaces.append(f"{tag}: minimal shape over {vals} per coordinate x 4 entry points")
        for c in _grid(tag, vals):
            k += 1
            if k % ctx.nshards != ctx.shard:
                continue
            ctx.case((tag, "grid", "valid" if ref_valid(tag, c) else "invalid"), {"type": tag, "coordinates": c})
            judge(ctx, tag, c)

    # mutations of valid bases
    n = ctx.scale(350, 2500)
    for tag in geoms.TYPES:
        for i in range(n):
            base = geoms.random_geom(rng, tag, rng.choice(["realistic", "dyadic", "edge"]))
            c = base["coordinates"]
            op = "none"
            for _ in range(rng.choice([1, 1, 1, 2])):
                try:
                    op2, c = mutate(rng, tag, c)
                except (TypeError, IndexError, KeyError):
                    op2 = "none"  # second operator not applicable to the already mutated structure
                op = op2 if op == "none" else f"{op}+{op2}"
            ctx.case((tag, op, "valid" if ref_valid(tag, c) else "invalid"), {"type": tag, "coordinates": c}, nontrivial=op != "none")
            judge(ctx, tag, c)
            if i % 3 == 0 and (isinstance(c, list) or (i // 3) % len(CONTAINERS) >= 4):
                cont = CONTAINERS[(i // 3) % len(CONTAINERS)]
                ctx.case((tag, op, "valid" if ref_valid(tag, c) else "invalid", cont), {"type": tag, "coordinates": c, "container": cont}, nontrivial=op != "none")
                judge(ctx, tag, c, container=cont)
            if i % 5 == 0:
                try:
                    g = geoms.build(base)
                except Exception as e:
                    ctx.violate_exc("rejects_valid", f"rejects_valid:{tag}:generator_base", e, spec={"kind": "validate", "type": tag, "coordinates": base["coordinates"]})
                    continue
                check_instance(ctx, g, "workload")

    # tag / coordinates mismatches and unknown tags
    for _ in range(ctx.scale(200, 1000)):
        t1, t2 = rng.sample(geoms.TYPES, 2)
        c = geoms.random_geom(rng, t2, "dyadic")["coordinates"]
        ctx.case((t1, f"coords_of:{t2}", "valid" if ref_valid(t1, c) else "invalid"), {"type": t1, "coordinates": c})
        judge(ctx, t1, c)
    from soundevent import data

    for bad in ("Circle", "point", "", None, 3):
        ctx.case(("unknown_tag",), {"type": bad, "coordinates": [1, 2]})
        for mode, obj in (("dict", {"type": bad, "coordinates": [1, 2]}), ("attributes", SimpleNamespace(type=bad, coordinates=[1, 2])),
                          ("json", json.dumps({"type": bad, "coordinates": [1, 2]}))):
            ctx.mon("unknown_tag")
            try:
                data.geometry_validate(obj, mode=mode)
                ctx.violate("unknown_tag_accepted", "unknown_tag_accepted", observed=bad, expected="ValueError", spec={"kind": "unknown_tag", "type": bad, "mode": mode})
            except ValueError:
                pass
            except Exception as e:
                if not (bad is None or isinstance(bad, int)) or not isinstance(e, TypeError):
                    ctx.violate_exc("unknown_tag_wrong_exception", f"unknown_tag_wrong_exception:{type(e).__name__}", e, spec={"kind": "unknown_tag", "type": bad, "mode": mode})


def replay(ctx, w):
    s = w["spec"]
    ctx.case("replay", s)
    if s.get("kind") == "validate":
        judge(ctx, s["type"], s["coordinates"], container=s.get("container", "list"))
    elif s.get("kind") == "instance":
        judge(ctx, s["g"]["type"], s["g"]["coordinates"])
