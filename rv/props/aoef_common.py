"""Shared AOEF monitors: save hook, document checker (C02), round trip (C01), paths (C18)."""

from __future__ import annotations

import json
import os
import re
import shutil
import tempfile
from collections import Counter
from pathlib import Path, PurePosixPath

from rv.core import ctx as _ctx
from rv.core import instrument
from rv.core.walk import diff, walk

_installed = False
_orig_save = None
_orig_load = None
HOOKS: list = []          # callables(obj, path, audio_dir) run after every successful save
_in_monitor = 0
UUID_RE = re.compile(r"^[0-9a-f]{8}-[0-9a-f]{4}-[0-9a-f]{4}-[0-9a-f]{4}-[0-9a-f]{12}$")

TMP = None


def tmpdir():
    global TMP
    if TMP is None:
        TMP = tempfile.mkdtemp(prefix="rv-aoef-")
        import atexit

        atexit.register(shutil.rmtree, TMP, True)
    return TMP


def install():
    """Wrap soundevent.io.aoef.save (and every alias: io.save's SAVERS table) with the hook runner."""
    global _installed, _orig_save, _orig_load
    if _installed:
        return
    import soundevent.io.aoef as A

    _orig_load = A.load

    def make(orig):
        def save(obj, path, audio_dir=None, exclude=None):
            global _in_monitor
            orig(obj, path, audio_dir=audio_dir, exclude=exclude)
            if _in_monitor or exclude is not None:
                return None
            _in_monitor += 1
            try:
                for h in list(HOOKS):
                    try:
                        h(obj, path, audio_dir)
                    except Exception as exc:  # monitor bug
                        c = _ctx.CURRENT
                        if c is not None:
                            import traceback

                            traceback.print_exc()
                            c.inconclusive_because(f"monitor_error:{getattr(h, '__name__', 'hook')}:{type(exc).__name__}:{exc}"[:200])
            finally:
                _in_monitor -= 1
            return None

        return save

    _orig_save = instrument.attach("soundevent.io.aoef", "save", make)
    _installed = True


def raw_save(obj, path, audio_dir=None):
    return _orig_save(obj, path, audio_dir=audio_dir)


def raw_load(path, audio_dir=None):
    return _orig_load(path, audio_dir=audio_dir)


# ============================================================ C02 doc checker
# reference-position schema: list name -> [(json path inside an entry, target list, kind)]
REFS = {
    "recordings": [("tags[]", "tags"), ("owners[]", "users"), ("notes[].created_by", "users")],
    "clips": [("recording", "recordings")],
    "sound_events": [("recording", "recordings")],
    "sequences": [("sound_events[]", "sound_events"), ("parent", "sequences")],
    "sound_event_annotations": [("sound_event", "sound_events"), ("tags[]", "tags"), ("created_by", "users"), ("notes[].created_by", "users")],
    "sequence_annotations": [("sequence", "sequences"), ("tags[]", "tags"), ("created_by", "users"), ("notes[].created_by", "users")],
    "clip_annotations": [("clip", "clips"), ("tags[]", "tags"), ("sound_events[]", "sound_event_annotations"),
                         ("sequences[]", "sequence_annotations"), ("notes[].created_by", "users")],
    "sound_event_predictions": [("sound_event", "sound_events"), ("tags[][0]", "tags")],
    "sequence_predictions": [("sequence", "sequences"), ("tags[][0]", "tags")],
    "clip_predictions": [("clip", "clips"), ("sound_events[]", "sound_event_predictions"), ("sequences[]", "sequence_predictions"), ("tags[][0]", "tags")],
    "matches": [("source", "sound_event_predictions"), ("target", "sound_event_annotations")],
    "clip_evaluations": [("annotations", "clip_annotations"), ("predictions", "clip_predictions"), ("matches[]", "matches")],
    "tasks": [("clip", "clips"), ("status_badges[].owner", "users")],
}
TOP_REFS = [("project_tags[]", "tags"), ("evaluation_tags[]", "tags")]
ID_KEY = {"tags": "id"}
# which top-level lists a collection type may define (the rest cannot be referenced either)
LISTS = ["users", "tags", "recordings", "clips", "sound_events", "sequences", "sound_event_annotations", "sequence_annotations",
         "clip_annotations", "sound_event_predictions", "sequence_predictions", "clip_predictions", "matches", "clip_evaluations", "tasks"]


def _extract(entry, path):
    """Values at a mini json-path like 'notes[].created_by' or 'tags[][0]'."""
    cur = [entry]
    for part in re.findall(r"[^.\[\]]+|\[\]|\[\d+\]", path):
        nxt = []
        for c in cur:
            if c is None:
                continue
            if part == "[]":
                if isinstance(c, list):
                    nxt.extend(c)
            elif part.startswith("["):
                i = int(part[1:-1])
                if isinstance(c, list) and len(c) > i:
                    nxt.append(c[i])
            elif isinstance(c, dict) and part in c:
                nxt.append(c[part])
        cur = nxt
    return [c for c in cur if c is not None]


def _all_uuid_strings(x, acc, where=""):
    if isinstance(x, dict):
        for k, v in x.items():
            _all_uuid_strings(v, acc, f"{where}.{k}")
    elif isinstance(x, list):
        for v in x:
            _all_uuid_strings(v, acc, where + "[]")
    elif isinstance(x, str) and UUID_RE.match(x):
        acc.append((where, x))


def reachable(obj):
    """Distinct objects reachable from a collection, per document list (independent walk)."""
    kinds = {
        "User": "users", "Recording": "recordings", "Clip": "clips", "SoundEvent": "sound_events", "Sequence": "sequences",
        "SoundEventAnnotation": "sound_event_annotations", "SequenceAnnotation": "sequence_annotations", "ClipAnnotation": "clip_annotations",
        "SoundEventPrediction": "sound_event_predictions", "SequencePrediction": "sequence_predictions", "ClipPrediction": "clip_predictions",
        "Match": "matches", "ClipEvaluation": "clip_evaluations", "AnnotationTask": "tasks",
    }
    out = {k: set() for k in LISTS}
    for _, inst in walk(obj):
        n = type(inst).__name__
        if n in kinds:
            out[kinds[n]].add(str(inst.uuid))
        elif n == "Tag":
            out["tags"].add((inst.term.label, inst.value))
    return out


def check_document(c, obj, text, spec, strict_reachable=True):
    """Offline checker over the JSON text on disk (parsed with the stdlib, not pydantic)."""
    c.mon("document_checker")
    doc = json.loads(text)
    d = doc.get("data", {})
    ctype = d.get("collection_type")
    defs = {}
    nonempty = 0
    for name in LISTS:
        entries = d.get(name) or []
        if entries:
            nonempty += 1
        key = ID_KEY.get(name, "uuid")
        ids = [e.get(key) for e in entries]
        cnt = Counter(ids)
        dup = [i for i, n in cnt.items() if n > 1]
        if dup:
            c.violate("unique_ids", f"unique_ids:{name}", observed={"list": name, "duplicates": dup[:3]}, expected="identifiers unique within their list", spec=spec)
        defs[name] = set(ids)
    # (2) every reference resolves
    for name, refs in REFS.items():
        for e in d.get(name) or []:
            for path, target in refs:
                for v in _extract(e, path):
                    if v not in defs[target]:
                        c.violate("closed_under_reference", f"dangling:{ctype}:{name}.{path}->{target}", observed={"in": name, "ref": v},
                                  expected=f"defined in data.{target}", spec=spec)
    for path, target in TOP_REFS:
        for v in _extract(d, path):
            if v not in defs[target]:
                c.violate("closed_under_reference", f"dangling:{ctype}:{path}->{target}", observed={"ref": v}, expected=f"defined in data.{target}", spec=spec)
    # (3) generic backstop: every uuid-shaped string is a definition
    all_uuids = set().union(*[defs[n] for n in LISTS if n != "tags"]) | {d.get("uuid")}
    note_ids = set()
    for name in ("recordings", "sound_event_annotations", "sequence_annotations", "clip_annotations"):
        for e in d.get(name) or []:
            for nt in e.get("notes") or []:
                note_ids.add(nt.get("uuid"))
    acc = []
    _all_uuid_strings(d, acc)
    for where, u in acc:
        if u not in all_uuids and u not in note_ids:
            c.violate("closed_under_reference", f"dangling_uuid:{ctype}:{where}", observed={"at": where, "uuid": u}, expected="uuid defined in a top-level list", spec=spec)
    # (4) parents precede children
    order = {e.get("uuid"): i for i, e in enumerate(d.get("sequences") or [])}
    for e in d.get("sequences") or []:
        p = e.get("parent")
        if p is not None and p in order and order[p] >= order[e.get("uuid")]:
            c.violate("parent_before_child", "parent_before_child", observed={"sequence": e.get("uuid"), "parent": p}, expected="parent listed earlier", spec=spec)
    # (5) defined == reachable
    if strict_reachable:
        reach = reachable(obj)
        tag_defs = {(e.get("key"), e.get("value")) for e in d.get("tags") or []}
        for name in LISTS:
            have = tag_defs if name == "tags" else defs[name]
            want = reach[name]
            missing, extra = want - have, have - want
            if missing:
                c.violate("reachable_is_defined", f"missing:{ctype}:{name}", observed={"list": name, "missing": sorted(map(str, missing))[:3], "n": len(missing)},
                          expected="every reachable object defined", spec=spec)
            if extra:
                c.violate("defined_is_reachable", f"unreachable:{ctype}:{name}", observed={"list": name, "extra": sorted(map(str, extra))[:3]},
                          expected="nothing unreachable written", spec=spec)
    return nonempty


# ====================================================== C01 round-trip monitor
FIELD_SEEN: Counter = Counter()   # (class, field, "set"|"default") -> count
CLASSES = ["User", "Tag", "Feature", "Note", "Recording", "Clip", "SoundEvent", "Sequence", "SoundEventAnnotation", "SequenceAnnotation",
           "ClipAnnotation", "PredictedTag", "SoundEventPrediction", "SequencePrediction", "ClipPrediction", "Match", "ClipEvaluation",
           "Evaluation", "AnnotationTask", "StatusBadge", "RecordingSet", "Dataset", "AnnotationSet", "AnnotationProject", "EvaluationSet",
           "PredictionSet", "ModelRun"]


def track_fields(obj):
    from pydantic_core import PydanticUndefined

    for _, inst in walk(obj):
        cls = type(inst)
        n = cls.__name__
        if n not in CLASSES:
            continue
        for fname, fi in cls.model_fields.items():
            v = getattr(inst, fname)
            if fi.default_factory is not None:
                try:
                    dflt = fi.default_factory()
                except Exception:
                    dflt = None
                is_set = not (v == dflt) if isinstance(dflt, (list, tuple, dict)) else True
            elif fi.default is PydanticUndefined:
                is_set = True
            else:
                is_set = v != fi.default
            FIELD_SEEN[(n, fname, "set" if is_set else "default")] += 1


def field_coverage_gaps():
    from soundevent import data

    gaps = []
    for n in CLASSES:
        cls = getattr(data, n)
        for fname in cls.model_fields:
            if FIELD_SEEN[(n, fname, "set")] == 0:
                gaps.append(f"{n}.{fname}")
    return gaps


def doc_without_envelope(path):
    doc = json.loads(Path(path).read_text())
    doc.pop("created_on", None)
    return doc


def roundtrip(c, obj, path, audio_dir, spec, cycles=2):
    """C01: fresh load equals the original in every declared field; further cycles are exact fixpoints."""
    c.mon("roundtrip")
    track_fields(obj)
    try:
        loaded = raw_load(path, audio_dir)
    except Exception as e:
        c.violate_exc("load_raises", f"load_raises:{type(obj).__name__}:{type(e).__name__}", e, spec=spec)
        return None
    if type(loaded) is not type(obj):
        c.violate("same_type", f"same_type:{type(obj).__name__}", observed=type(loaded).__name__, expected=type(obj).__name__, spec=spec)
        return loaded
    dd = diff(obj, loaded)
    if dd:
        p = re.sub(r"\[\d+\]", "[]", dd[0])
        # mechanism key: collection type + the class-level field path of the first difference
        c.violate("lossless", f"lossless:{type(obj).__name__}:{_field_key(obj, dd[0])}", observed={"path": dd[0], "original": dd[1], "loaded": dd[2]},
                  expected="equal in every declared field", spec=spec)
        return loaded
    if c.every(spec, 5):
        # the caller owns a loaded collection: an earlier load of the same file is edited in place (lists reordered,
        # members dropped); a later load of that file still equals the original
        try:
            from rv.core import scribble

            victim = raw_load(path, audio_dir)
            if scribble.scribble(victim):
                c.mon("reload_after_result_edit")
                dd = diff(obj, raw_load(path, audio_dir))
                if dd:
                    c.violate("lossless", f"lossless:{type(obj).__name__}:{_field_key(obj, dd[0])}:after_caller_edited_earlier_load",
                              observed={"path": dd[0], "original": dd[1], "loaded": dd[2]}, expected="equal in every declared field", spec=spec)
                    return loaded
        except Exception as e:
            c.violate_exc("load_raises", f"load_raises_on_repeat:{type(obj).__name__}:{type(e).__name__}", e, spec=spec)
            return loaded
    prev, prev_path = loaded, path
    for k in range(cycles):
        p2 = os.path.join(tmpdir(), f"cycle-{os.getpid()}-{k}.json")
        try:
            raw_save(prev, p2, audio_dir)
            nxt = raw_load(p2, audio_dir)
        except Exception as e:
            c.violate_exc("cycle_raises", f"cycle_raises:{type(obj).__name__}:{type(e).__name__}", e, spec=spec)
            return loaded
        c.mon("fixpoint")
        dd = diff(prev, nxt)
        if dd:
            c.violate("fixpoint_object", f"fixpoint_object:{type(obj).__name__}:{_field_key(prev, dd[0])}", observed={"cycle": k + 2, "path": dd[0], "a": dd[1], "b": dd[2]},
                      expected="exact fixpoint", spec=spec)
            return loaded
        if doc_without_envelope(prev_path) != doc_without_envelope(p2):
            a, b = doc_without_envelope(prev_path), doc_without_envelope(p2)
            where = _json_diff(a, b)
            c.violate("fixpoint_document", f"fixpoint_document:{type(obj).__name__}:{re.sub(r'[0-9]+', 'N', where)[:60]}", observed={"cycle": k + 2, "at": where},
                      expected="documents equal up to envelope created_on", spec=spec)
            return loaded
        prev, prev_path = nxt, p2
    return loaded


def _field_key(root, path):
    """'$.clip_annotations[0].clip.recording.license' -> 'Recording.license' (class owning the last field)."""
    parts = re.findall(r"\.([A-Za-z_]+)|\[(\d+)\]", path)
    cur = root
    owner, last = type(root).__name__, "?"
    try:
        for name, idx in parts:
            if name:
                owner, last = type(cur).__name__, name
                cur = getattr(cur, name)
            else:
                cur = cur[int(idx)]
    except Exception:
        pass
    return f"{owner}.{last}"


def _json_diff(a, b, path="$"):
    if type(a) is not type(b):
        return path
    if isinstance(a, dict):
        for k in sorted(set(a) | set(b)):
            if k not in a or k not in b:
                return f"{path}.{k}"
            r = _json_diff(a[k], b[k], f"{path}.{k}")
            if r:
                return r
        return None
    if isinstance(a, list):
        if len(a) != len(b):
            return f"{path}(len)"
        for i, (x, y) in enumerate(zip(a, b)):
            r = _json_diff(x, y, f"{path}[{i}]")
            if r:
                return r
        return None
    return None if a == b else path


# ============================================================ C18 path monitor
def check_paths_saved(c, obj, text, audio_dir, spec):
    c.mon("paths_saved")
    doc = json.loads(text)
    stored = {e["uuid"]: e["path"] for e in (doc.get("data", {}).get("recordings") or [])}
    for _, inst in walk(obj):
        if type(inst).__name__ != "Recording":
            continue
        got = stored.get(str(inst.uuid))
        if got is None:
            continue
        if audio_dir is None:
            want = str(inst.path)
        else:
            try:
                want = str(PurePosixPath(str(inst.path)).relative_to(PurePosixPath(str(audio_dir))))
            except ValueError:
                c.violate("outside_recording_written", f"outside_recording_written:{type(obj).__name__}", observed=got,
                          expected="save fails for a recording outside the audio directory", spec=spec)
                continue
        if str(PurePosixPath(got)) != str(PurePosixPath(want)):
            c.violate("stored_relative", f"stored_relative:{type(obj).__name__}", observed=got, expected=want, spec=spec)


def summary(obj):
    cnt = Counter(type(i).__name__ for _, i in walk(obj))
    return dict(cnt)
