"""C15 — audio-derived arrays are sample-accurate and their axes tell the truth."""

from __future__ import annotations

import math
import os
import shutil
import tempfile
import uuid
from fractions import Fraction as F

import numpy as np

from rv.core import ctx as _ctx
from rv.core import calling, instrument, scribble

ANCHORS = ("audio/io.py", "audio/operations.py", "audio/spectrograms.py", "arrays/dimensions.py")
THOROUGH_SHARDS = 10
AMBIENT_TESTS = ["tests/test_audio"]
_installed = False
_TMP = None
_FILES: dict = {}


def _sweep_stale(prefix, older_than_s=6 * 3600):
    """Scratch directories of runs that were killed (a native crash under a seeded change, a timeout) are not removed by
    their atexit handler: remove those that have not been touched for hours."""
    import time

    root = tempfile.gettempdir()
    try:
        for name in os.listdir(root):
            p = os.path.join(root, name)
            if name.startswith(prefix) and os.path.isdir(p) and time.time() - os.path.getmtime(p) > older_than_s:
                shutil.rmtree(p, True)
    except OSError:
        pass


def tmp():
    global _TMP
    if _TMP is None:
        _sweep_stale("rv-audio-")
        _TMP = tempfile.mkdtemp(prefix="rv-audio-")
        import atexit

        atexit.register(shutil.rmtree, _TMP, True)
    return _TMP


# lossless containers and encodings, which libsndfile reads with sample-accurate seeking.  Lossy codecs are left out:
# for MP3 and (seen with 3 channels at 12345 Hz) OGG/Vorbis a seek followed by a read does not return the same
# samples as the corresponding slice of a whole-file decode, so "the frames of the file at an offset" has no exact
# reference there (a property of the decoder, not of soundevent)
CONTAINERS = [("wav", "PCM_16")] * 3 + [("flac", "PCM_16"), ("flac", "PCM_24"), ("wav", "PCM_24"), ("wav", "PCM_32"), ("wav", "FLOAT"),
                                        ("aiff", "PCM_24"), ("aiff", "PCM_16"), ("w64", "PCM_16"), ("caf", "PCM_16"), ("au", "PCM_16"), ("flac", "PCM_16")]


def container_of(seed):
    return CONTAINERS[seed % len(CONTAINERS)]


def make_file(file_sr, channels, n_frames, seed):
    """Write an audio file whose samples are known; returns (path, float reference array of the decoded frames).

    PCM_16 WAV: the reference is the written integers / 32768 (independent of any decoder).  Other containers
    (chosen by ``seed``): the reference is one whole-file decode, so offsets / lengths / channel order are judged.
    """
    import soundfile as sf

    key = (file_sr, channels, n_frames, seed)
    if key in _FILES:
        return _FILES[key]
    r = np.random.default_rng(seed)
    data = r.integers(-32768, 32767, size=(n_frames, channels), dtype=np.int16)
    # make every frame identify itself in channel 0 as far as 16 bits allow
    data[:, 0] = (np.arange(n_frames) % 60000 - 30000).astype(np.int16)
    fmt, sub = container_of(seed)
    ref = None
    if (fmt, sub) != ("wav", "PCM_16"):
        path = os.path.join(tmp(), f"f{file_sr}_{channels}_{n_frames}_{seed}.{fmt}")
        try:
            sf.write(path, data, file_sr, subtype=sub, format=fmt.upper())
            ref, sr_ = sf.read(path, always_2d=True, dtype="float64")
            if sr_ != file_sr or ref.shape != data.shape:
                ref = None
        except Exception:
            ref = None
    if ref is None:
        path = os.path.join(tmp(), f"f{file_sr}_{channels}_{n_frames}_{seed}.wav")
        sf.write(path, data, file_sr, subtype="PCM_16")
        ref = data / 32768.0
        fmt, sub = "wav", "PCM_16"
    c = _ctx.CURRENT
    if c is not None:
        c.note(f"file_container:{fmt}:{sub}")
    _FILES[key] = (path, ref)
    return _FILES[key]


# ------------------------------------------------------------- axis contract
def check_axis(c, name, coords, step, first, spec, producer, mechanism=None):
    """strictly increasing; starts at the source's start; every coordinate within one step of first + i*step."""
    c.mon(f"axis.{producer}.{name}")
    coords = np.asarray(coords, float)
    if step is None:
        c.violate("axis:step_attr_missing", f"axis:step_attr_missing:{producer}:{name}", spec=spec)
        return
    if len(coords) == 0:
        return
    if len(coords) > 1 and not np.all(np.diff(coords) > 0):
        c.violate("axis:strictly_increasing", f"axis:strictly_increasing:{producer}:{name}", observed="non-increasing", spec=spec)
        return
    if first is not None and abs(coords[0] - first) > 1e-9 * max(1.0, abs(first)):
        c.violate("axis:starts_at_source_start", f"axis:starts_at_source_start:{producer}:{name}", observed=float(coords[0]), expected=float(first), spec=spec)
    ideal = coords[0] + np.arange(len(coords)) * float(step)
    dev = np.abs(coords - ideal)
    worst = float(dev.max() / float(step))
    if worst >= 1.0:
        i = int(dev.argmax())
        key = f"axis:within_one_step:{producer}:{name}"
        if mechanism is not None and worst <= mechanism[0]:
            key += ":" + mechanism[1]
        c.violate("axis:within_one_step", key, observed={"i": i, "coord": float(coords[i]), "steps_off": worst, "step_attr": float(step)},
                  expected="|coord[i] - (first + i*step)| < step", spec=spec)


def _post_spectrogram(audio, window_size, hop_size, result):
    c = _ctx.CURRENT
    if c is None:
        return True
    spec = {"kind": "spectrogram_ambient", "n": int(audio.sizes["time"]), "window": window_size, "hop": hop_size, "audio_step": audio.time.attrs.get("step")}
    check_axis(c, "time", result.time.data, result.time.attrs.get("step"), float(audio.time.data[0]) if audio.sizes["time"] else None, spec, "compute_spectrogram")
    check_axis(c, "frequency", result.frequency.data, result.frequency.attrs.get("step"), 0.0, spec, "compute_spectrogram")
    return True


def _post_resample(array, target_samplerate, result):
    c = _ctx.CURRENT
    if c is None:
        return True
    spec = {"kind": "resample_ambient", "n": int(array.sizes["time"]), "target": target_samplerate, "audio_step": array.time.attrs.get("step")}
    # mechanism of the open finding: the INPUT's own coordinates do not follow its advertised step (it is itself the
    # output of a resample whose length was truncated), so resample mis-estimates the duration it has to cover; the
    # output then drifts by up to 1 + target * (real duration - advertised duration) steps
    mech = None
    n_in, a_in = int(array.sizes["time"]), array.time.attrs.get("step")
    if n_in > 1 and a_in:
        t_in = np.asarray(array.time.data, float)
        s_in = float(t_in[-1] - t_in[0]) / (n_in - 1)
        extra = abs(n_in * float(target_samplerate) * (s_in - float(a_in)))
        # ... by less than one of its own steps over its whole length (that is what a truncated length produces; a
        # grossly wrong step attribute is something else and is not covered by the finding)
        if 1e-12 * float(a_in) < abs(s_in - float(a_in)) and n_in * abs(s_in - float(a_in)) <= float(a_in) * (1 + 1e-6):
            mech = (1.0 + extra + 1e-6, "input_spacing_differs_from_its_advertised_step")
    check_axis(c, "time", result.time.data, result.time.attrs.get("step"), float(array.time.data[0]) if array.sizes["time"] else None, spec, "resample", mechanism=mech)
    return True


def install():
    global _installed
    if _installed:
        return
    instrument.ensure("soundevent.audio.spectrograms", "compute_spectrogram", _post_spectrogram)
    instrument.ensure("soundevent.audio.operations", "resample", _post_resample)
    _installed = True


# -------------------------------------------------------------------- judges
def _split(path, seed):
    """Half of the files are addressed through a relative recording path + audio_dir."""
    if seed % 2:
        return os.path.basename(path), os.path.dirname(path)
    return path, None


def _recording(path, file_sr, te, channels, n_frames):
    from soundevent import data

    real_sr = int(round(file_sr * te))
    return data.Recording(uuid=uuid.UUID(int=42), path=path, duration=n_frames / real_sr, channels=channels, samplerate=real_sr, time_expansion=te)


def judge_clip(ctx, file_sr, te, channels, n_frames, seed, start, end, history=None):
    from soundevent import data
    from soundevent.audio import io as AIO

    path, written = make_file(file_sr, channels, n_frames, seed)
    path, adir = _split(path, seed)
    rec = _recording(path, file_sr, te, channels, n_frames)
    sr = rec.samplerate
    spec = {"kind": "clip", "file_sr": file_sr, "te": te, "channels": channels, "n_frames": n_frames, "seed": seed, "start": start, "end": end,
            "container": ":".join(container_of(seed))}
    if history:
        spec["history"] = history
    clip = data.Clip(uuid=uuid.UUID(int=43), recording=rec, start_time=start, end_time=end)
    ctx.mon("load_clip")
    try:
        if adir is not None and ctx.every(spec, 5):
            from pathlib import Path as _P

            same = lambda x, y: np.array_equal(np.asarray(x.data), np.asarray(y.data)) and np.array_equal(x.time.data, y.time.data)
            calling.agree(ctx, "load_clip", instrument.original(AIO.load_clip), dict(clip=clip, audio_dir=adir), spec, same=same, variants={"path_object": {"audio_dir": _P(adir)}})
        wav = AIO.load_clip(clip, audio_dir=adir)
    except Exception as e:
        key = f"load_clip:raises:{type(e).__name__}"
        if isinstance(e, IndexError) and F(end) - F(start) < F(1, sr):
            key = "load_clip:raises:zero_frame_clip"
        ctx.violate_exc("load_clip:raises", key, e, spec=spec)
        return
    # expected frame count / offset with exact arithmetic on the given doubles
    q_off = F(start) * sr
    q_len = (F(end) - F(start)) * sr          # statement: floor(duration x samplerate)
    q_len_f = F(end - start) * sr              # the duration as a double (what any float implementation sees)
    def near_int(q):
        r = q - math.floor(q)
        return min(r, 1 - r) < F(1, 10 ** 6) and r != 0
    amb_off, amb_len = near_int(q_off), near_int(q_len) or math.floor(q_len) != math.floor(q_len_f)
    off = math.floor(q_off)
    n = math.floor(q_len)
    data_ = np.asarray(wav.data)
    if amb_len:
        ctx.dc("frame_count_near_integer_product")
    elif data_.shape[0] != n:
        ctx.violate("load_clip:frame_count", "load_clip:frame_count", observed=int(data_.shape[0]), expected=n, spec=spec)
        return
    if data_.shape[1] != channels:
        ctx.violate("load_clip:channels", "load_clip:channels", observed=int(data_.shape[1]), expected=channels, spec=spec)
        return
    if amb_off:
        ctx.dc("offset_near_integer_product")
    else:
        m = data_.shape[0]
        want = np.zeros((m, channels))
        avail = max(0, min(m, n_frames - off))
        if avail > 0:
            want[:avail] = written[off:off + avail]
        if not np.array_equal(data_, want):
            bad = int(np.argwhere(data_ != want)[0][0])
            ctx.violate("load_clip:frames", "load_clip:frames", observed={"first_bad_frame": bad, "value": data_[bad].tolist()}, expected=want[bad].tolist(), spec=spec)
        t = np.asarray(wav.time.data)
        if len(t) != m:
            ctx.violate("load_clip:time_axis_length", "load_clip:time_axis_length", observed=len(t), expected=m, spec=spec)
        elif m:
            wt = (off + np.arange(m)) / sr
            # 1e-9 s, or -- on long clips -- the rounding an increment-based axis accumulates: (i + 6) ulps at the
            # magnitude of the times (same argument as for C16 ranges)
            tolv = np.maximum(1e-9, (np.arange(m) + 6) * float(np.spacing(max(abs(float(wt[0])), abs(float(wt[-1])), 1.0))))
            if (np.abs(t - wt) > tolv).any():
                i = int((np.abs(t - wt) - tolv).argmax())
                ctx.violate("load_clip:frame_times", "load_clip:frame_times", observed={"i": i, "t": float(t[i])}, expected=float(wt[i]), spec=spec)
        check_axis(ctx, "time", t, wav.time.attrs.get("step"), off / sr, spec, "load_clip")
        st = wav.time.attrs.get("step")
        if st is not None and abs(st - 1 / sr) > 1e-15:
            ctx.violate("axis:step_value", "axis:step_value:load_clip", observed=st, expected=1 / sr, spec=spec)
    if history is None and ctx.every(spec, 4):
        # the caller owns the loaded array: it overwrites samples and coordinates in place, then loads the same clip,
        # an overlapping clip and the whole recording again -- each judged against the file as before
        keep = wav.copy(deep=True)
        try:
            acted = scribble.scribble(wav)
        except Exception:
            acted = 0
        if acted:
            ctx.mon("reload_after_result_edit")
            h = "an earlier load of an overlapping clip was edited in place by the caller"
            judge_clip(ctx, file_sr, te, channels, n_frames, seed, start, end, history=h)
            judge_clip(ctx, file_sr, te, channels, n_frames, seed, start / 2, end, history=h)
            judge_recording(ctx, file_sr, te, channels, n_frames, seed)
        return keep
    return wav


def judge_recording(ctx, file_sr, te, channels, n_frames, seed):
    from soundevent.audio import io as AIO

    path, written = make_file(file_sr, channels, n_frames, seed)
    path, adir = _split(path, seed)
    rec = _recording(path, file_sr, te, channels, n_frames)
    spec = {"kind": "recording", "file_sr": file_sr, "te": te, "channels": channels, "n_frames": n_frames, "seed": seed}
    ctx.mon("load_recording")
    try:
        wav = AIO.load_recording(rec, audio_dir=adir)
    except Exception as e:
        ctx.violate_exc("load_recording:raises", f"load_recording:raises:{type(e).__name__}", e, spec=spec)
        return None
    d = np.asarray(wav.data)
    if d.shape != written.shape or not np.array_equal(d, written):
        ctx.violate("load_recording:frames", "load_recording:frames", observed=list(d.shape), expected=list(written.shape), spec=spec)
    check_axis(ctx, "time", wav.time.data, wav.time.attrs.get("step"), 0.0, spec, "load_recording")
    return wav


def judge_resample(ctx, wav, target, spec):
    from soundevent.audio import operations as AO

    ctx.mon("resample")
    try:
        if ctx.every(spec, 8):
            same = lambda x, y: np.array_equal(np.asarray(x.data), np.asarray(y.data)) and np.array_equal(x.time.data, y.time.data)
            calling.agree(ctx, "resample", instrument.original(AO.resample), dict(array=wav, target_samplerate=target), spec, same=same,
                          variants={"numlike_rate": {"target_samplerate": calling.numlike(ctx.rng, target)}})
        out = AO.resample(wav, target)
    except Exception as e:
        ctx.violate_exc("resample:raises", f"resample:raises:{type(e).__name__}", e, spec=spec)
        return
    if ctx.every(spec, 2):
        # a chain: the result is resampled again (back to the source rate, and further down); each call is judged by the
        # axis contract on its own
        try:
            src_rate = round(1 / wav.time.attrs.get("step"))
            for t2 in (src_rate, max(1000, target // 2)):
                AO.resample(out, t2)
                ctx.mon("resample")
        except Exception as e:
            ctx.violate_exc("resample:raises", f"resample:raises_in_chain:{type(e).__name__}", e, spec=spec)
    n_old = wav.sizes["time"]
    step = wav.time.attrs.get("step")
    if out.sizes["time"] != int(n_old * (target * step)):
        ctx.note("resample_length_differs_from_int(n*ratio)")
    if out.sizes["channel"] != wav.sizes["channel"]:
        ctx.violate("resample:channels", "resample:channels", observed=int(out.sizes["channel"]), expected=int(wav.sizes["channel"]), spec=spec)


def judge_spectrogram(ctx, wav, window, hop, spec):
    from soundevent.audio import spectrograms as SP

    ctx.mon("compute_spectrogram")
    try:
        if ctx.every(spec, 8):
            same = lambda x, y: list(x.dims) == list(y.dims) and np.array_equal(np.asarray(x.data), np.asarray(y.data), equal_nan=True) and np.array_equal(x.time.data, y.time.data)
            calling.agree(ctx, "compute_spectrogram", instrument.original(SP.compute_spectrogram), dict(audio=wav, window_size=window, hop_size=hop), spec, same=same,
                          variants={"numlike_sizes": {"window_size": calling.numlike(ctx.rng, window), "hop_size": calling.numlike(ctx.rng, hop)}})
        sp = SP.compute_spectrogram(wav, window_size=window, hop_size=hop)
    except Exception as e:
        step_ = wav.time.attrs.get("step") or float(wav.time.data[1] - wav.time.data[0])
        if isinstance(e, ValueError) and int(window / step_) > wav.sizes["time"]:
            # a window longer than the signal: scipy shortens it, and refuses when the requested overlap no longer fits
            ctx.ood("spectrogram:window_longer_than_signal_and_overlap_does_not_fit")
            return
        ctx.violate_exc("spectrogram:raises", f"spectrogram:raises:{type(e).__name__}", e, spec=spec)
        return
    if tuple(sp.dims) != ("frequency", "time", "channel") or sp.sizes["channel"] != wav.sizes["channel"]:
        ctx.violate("spectrogram:dims", "spectrogram:dims", observed=list(sp.dims), spec=spec)


FILE_SRS = [8000, 11025, 22050, 44100, 48000, 96000, 12345, 8192, 16384, 65536]
# rates whose float reciprocal does not round-trip (int(1 / (1 / sr)) == sr - 1) and other unusual ones
ODD_SRS = [12500, 25000, 50000, 100000, 200000, 250000, 192000, 384000, 32000, 7000, 3500, 1017, 24000, 125000, 300000, 500000]


def run(ctx):
    install()
    rng = ctx.rng
    from rv.props import concurrent_jobs

    concurrent_jobs.run_some(ctx, "C15", quick=3, thorough=12)        # the same calls from a thread pool (rv/core/threads.py)
    ctx.must_monitors.append("concurrent_calls")
    ctx.rule = ("(file sample rate, time expansion, channels, length, clip start/end | resample target | window/hop); WAV files written by the harness with known integer samples; "
                "non-trivial = clip not aligned to sample boundaries, or hop not a whole number of samples; distinct = distinct case spec")
    ctx.assumptions += ["PCM_16 files: loaded floats are exactly int/32768", "frame counts whose exact product start*sr or duration*sr lies within 1e-6 of an integer (and is not an integer) are don't-care",
                        "time expansion factors keep the real sample rate integral (1, 10, 0.5)"]
    ctx.must_monitors += ["load_clip", "load_recording", "resample", "compute_spectrogram", "axis.load_clip.time", "axis.load_recording.time",
                          "axis.resample.time", "axis.compute_spectrogram.time", "axis.compute_spectrogram.frequency"]
    ctx.must_reach += ["audio/io.py::load_clip", "audio/io.py::load_recording", "audio/operations.py::resample", "audio/spectrograms.py::compute_spectrogram"]

    # directed: a signal shorter than the analysis window (scipy shortens the window; the axes must follow) -- fixed defect
    dwav = judge_recording(ctx, 1017, 1.0, 2, 515, 4242)
    if dwav is not None:
        for hop_frac in (0.5, 0.75, 1.0, 2.0):
            dspec = {"file_sr": 1017, "te": 1.0, "channels": 2, "n_frames": 515, "seed": 4242, "kind": "spectrogram", "window": 1024 / 1017, "hop": hop_frac * 1024 / 1017}
            ctx.case(("spectrogram", "directed", "window_longer_than_signal"), dspec)
            judge_spectrogram(ctx, dwav, dspec["window"], dspec["hop"], dspec)
    # directed: one read of more than 2**22 frames (11 s at 384 kHz; a minute and a half at 44.1 kHz) -- whole recording,
    # whole-recording clip, and a clip from the middle to past the end of the file
    if ctx.shard == 0:
        big = {"file_sr": 384000, "te": 1.0, "channels": rng.choice([1, 2]), "n_frames": 2 ** 22 + 4097 + rng.randrange(0, 5000), "seed": len(CONTAINERS) * rng.randint(1, 50)}
        ctx.case(("recording", "directed", "more_than_2**22_frames"), dict(big, kind="recording"))
        judge_recording(ctx, big["file_sr"], 1.0, big["channels"], big["n_frames"], big["seed"])
        tot = big["n_frames"] / big["file_sr"]
        for st, en in ((0.0, tot), (tot * 0.01, tot + 0.75), (tot * 0.4, tot * 0.9)):
            ctx.case(("clip", "directed", "more_than_2**22_frames"), dict(big, kind="clip", start=st, end=en))
            judge_clip(ctx, big["file_sr"], 1.0, big["channels"], big["n_frames"], big["seed"], st, en)
    n_files = ctx.scale(22, 14)        # per shard; the thorough tier has 10 shards and a depth multiplier
    for fi in range(n_files):
        if fi < len(FILE_SRS):
            file_sr = FILE_SRS[fi]
        else:
            file_sr = rng.choice([rng.choice(ODD_SRS), rng.choice(ODD_SRS), rng.randrange(1000, 400001), rng.choice(FILE_SRS)])
        if len(FILE_SRS) <= fi < len(FILE_SRS) + 4:
            file_sr = [12500, 50000, 25000, 200000][fi - len(FILE_SRS)]   # int(1 / (1 / sr)) == sr - 1 for these
        te = rng.choice([1.0, 1.0, 10.0, 0.5])
        if te == 0.5 and file_sr % 2:
            te = 1.0
        channels = rng.choice([1, 2, 3])
        dur = rng.choice([0.5, 1.0, 3.0, 3.5]) if not ctx.thorough else rng.choice([0.5, 1.0, 3.0, 5.0, 10.0])
        if len(FILE_SRS) <= fi < len(FILE_SRS) + 4:
            te, dur = 1.0, max(dur, 4.0 if file_sr < 100000 else 3.0)
        n_frames = int(dur * file_sr) + rng.choice([0, 1, 7])
        if fi % 2:
            # lengths whose duration does not survive a round trip through seconds: (n / sr) * sr rounds to just below n,
            # so code that re-derives the frame count from recording.duration loses the last frame
            rsr = int(round(file_sr * te))
            hostile = [n for n in range(n_frames, n_frames + 400) if (n / rsr) * rsr < n]
            if hostile:
                n_frames = rng.choice(hostile[:20])
        seed = rng.getrandbits(20)
        base = {"file_sr": file_sr, "te": te, "channels": channels, "n_frames": n_frames, "seed": seed}
        ctx.case(("recording", file_sr, te, channels), dict(base, kind="recording"), nontrivial=False)
        wav = judge_recording(ctx, file_sr, te, channels, n_frames, seed)
        real_sr = int(round(file_sr * te))
        total = n_frames / real_sr
        # clips
        for _ in range(ctx.scale(50, 40)):
            how = rng.choice(["aligned", "aligned", "free", "free", "zero", "subsample", "past_eof", "whole", "decimal", "cross", "cross", "cross"])
            if how == "cross":
                # every kind of start with every kind of end (a start in the first frame with an end past the file, ...)
                sk = rng.choice(["zero", "first_frame", "aligned", "free", "last_frame", "at_eof", "just_past_eof", "far_past_eof"])
                ek = rng.choice(["same", "subsample", "aligned", "free", "total", "just_past", "far_past"])
                a = rng.randrange(0, n_frames)
                start = {"zero": 0.0, "first_frame": rng.uniform(0, 1 / real_sr) * 0.99, "aligned": a / real_sr, "free": rng.uniform(0, total),
                         "last_frame": (n_frames - 1) / real_sr,
                         # a clip that STARTS at or beyond the end of the file (the recording's metadata says it is longer
                         # than the file is): nothing to read, everything zero-filled
                         "at_eof": total, "just_past_eof": total + rng.uniform(0.1, 2.5) / real_sr, "far_past_eof": total + rng.choice([0.5, 3.0, total])}[sk]
                end = {"same": start, "subsample": start + rng.uniform(0, 1 / real_sr) * 0.9, "aligned": rng.randrange(a, n_frames + 1) / real_sr,
                       "free": start + rng.uniform(0, max(total - start, 0)), "total": total, "just_past": total + rng.uniform(0.2, 3) / real_sr,
                       "far_past": total + rng.choice([0.25, 0.5, total / 2])}[ek]
                if sk.endswith("eof"):
                    end = start + rng.choice([0.0, rng.uniform(0, 1 / real_sr), 0.25, rng.randrange(1, 4000) / real_sr])
                end = max(end, start)
                how = f"cross:{sk}:{ek}"
            elif how == "aligned":
                a = rng.randrange(0, n_frames); b = rng.randrange(a, n_frames + 1)
                start, end = a / real_sr, b / real_sr
            elif how == "free":
                start = rng.uniform(0, total); end = start + rng.uniform(0, total - start)
            elif how == "zero":
                start = end = rng.choice([0.0, rng.randrange(0, n_frames) / real_sr, rng.uniform(0, total)])
            elif how == "subsample":
                start = rng.uniform(0, total * 0.9); end = start + rng.uniform(0, 1 / real_sr) * 0.9
            elif how == "past_eof":
                start = rng.uniform(total * 0.5, total); end = total + rng.uniform(0, 0.5)
            elif how == "whole":
                start, end = 0.0, total
            else:
                start = round(rng.uniform(0, total * 0.8), 2); end = min(round(start + rng.choice([0.1, 0.25, 0.3, 0.7]), 2), total + 0.5)
            aligned = (F(start) * real_sr).denominator == 1 and (F(end) * real_sr).denominator == 1
            ctx.case(("clip", how, "dyadic_sr" if file_sr in (8192, 16384, 65536) else "decimal_sr", f"te{te}", channels), dict(base, kind="clip", start=start, end=end), nontrivial=not aligned)
            cw = judge_clip(ctx, file_sr, te, channels, n_frames, seed, start, end)
        if wav is None:
            continue
        # resample
        # (... and rates a hair off a simple ratio of the source rate: half + 1 Hz, equal + 1 Hz, a third + 1 Hz, double - 1 Hz)
        near = [max(real_sr // 2, 999) + 1, real_sr + 1, max(real_sr // 3, 999) + 1, 2 * real_sr - 1]
        for target in rng.sample([4000, 8000, 16000, 22050, 32000, 44100, 48000, 11111, 96000, 2 * real_sr, real_sr // 2 or 1000, 25000, 100000], 4) + rng.sample(near, 2):
            ctx.case(("resample", real_sr, target), dict(base, kind="resample", target=target), nontrivial=(real_sr % target != 0 and target % real_sr != 0))
            judge_resample(ctx, wav, target, dict(base, kind="resample", target=target))
        # spectrograms: whole and fractional numbers of samples per hop
        for _ in range(ctx.scale(5, 8)):
            kind = rng.choice(["whole", "fractional", "fractional", "decimal", "sparse"])
            if kind == "whole":
                nper = rng.choice([64, 128, 256, 512, 1024]); hopn = rng.choice([nper // 4, nper // 2, nper])
                window, hop = nper / real_sr, hopn / real_sr
            elif kind == "sparse":
                # frames further apart than they are long (a short window every so often): hop > window
                nper = rng.choice([64, 128, 256]); window = nper / real_sr
                hop = rng.choice([1.5 * nper, 2 * nper, 100 + nper, 6.25 * nper]) / real_sr
            elif kind == "fractional":
                window = rng.choice([0.004, 0.008, 0.0123, 0.02]); hop = rng.choice([0.0033, 0.001, 0.0025, window / 3])
            else:
                window = rng.choice([0.01, 0.02, 0.032]); hop = window / 2
            whole = abs(hop * real_sr - round(hop * real_sr)) < 1e-9
            ctx.case(("spectrogram", kind, "whole_hop" if whole else "fractional_hop"), dict(base, kind="spectrogram", window=window, hop=hop), nontrivial=not whole)
            judge_spectrogram(ctx, wav, window, hop, dict(base, kind="spectrogram", window=window, hop=hop))
        # the recording array has now been fed to resample / compute_spectrogram several times: it is still an
        # array "produced by load_recording" and must still satisfy the axis contract (no aliasing of its attrs)
        check_axis(ctx, "time", wav.time.data, wav.time.attrs.get("step"), 0.0, dict(base, kind="recording_after_use"), "load_recording")
        if wav.time.attrs.get("step") is not None and abs(wav.time.attrs["step"] - 1 / real_sr) > 1e-15:
            ctx.violate("axis:step_value", "axis:step_value:load_recording_after_use", observed=wav.time.attrs.get("step"), expected=1 / real_sr, spec=dict(base, kind="recording_after_use"))
        # a waveform the user assembled by hand (no step attribute: it is estimated from the coordinates), used
        # AFTER the calls above: nothing they left behind may leak into it
        if fi % 3 == 0:
            import xarray as xr

            from soundevent.arrays import dimensions as DM

            # (rates no library call of this run has used: whatever an earlier call left behind cannot pass for this axis's step)
            usr_sr = rng.choice([7919, 15991, 10007, 8000])
            n_u = usr_sr // 2
            tt = 2.0 + np.arange(n_u) / usr_sr
            for how in ("create_dim_no_step", "plain_coords", "create_dim_estimate"):
                if how == "plain_coords":
                    tcoord = tt
                else:
                    tcoord = DM.create_time_dim_from_array(tt, estimate_step=(how == "create_dim_estimate"))
                uw = xr.DataArray(np.random.default_rng(seed).normal(size=(n_u, 1)), dims=("time", "channel"), coords={"time": tcoord, "channel": [0]})
                uspec = dict(base, kind="user_waveform", how=how, usr_sr=usr_sr)
                ctx.case(("user_waveform", how), uspec)
                from soundevent.audio import operations as AO
                from soundevent.audio import spectrograms as SP

                try:
                    # judged by the ambient axis-contract postconditions on resample / compute_spectrogram
                    AO.resample(uw, usr_sr // 2)
                    ctx.mon("resample")
                    SP.compute_spectrogram(uw, window_size=256 / usr_sr, hop_size=128 / usr_sr)
                    ctx.mon("compute_spectrogram")
                except Exception as e:
                    ctx.violate_exc("user_waveform:raises", f"user_waveform:raises:{type(e).__name__}", e, spec=uspec)
        # spectrogram of a clip (source start != 0)
        if cw is not None and cw.sizes["time"] > 2048:
            ctx.case(("spectrogram", "of_clip"), dict(base, kind="spectrogram_of_clip"))
            judge_spectrogram(ctx, cw, 512 / real_sr, 128 / real_sr, dict(base, kind="spectrogram_of_clip"))


def replay(ctx, w):
    install()
    s = w["spec"]
    ctx.case("replay", s)
    if s["kind"] == "clip":
        judge_clip(ctx, s["file_sr"], s["te"], s["channels"], s["n_frames"], s["seed"], s["start"], s["end"])
    elif s["kind"] in ("recording", "resample", "spectrogram"):
        wav = judge_recording(ctx, s["file_sr"], s["te"], s["channels"], s["n_frames"], s["seed"])
        if wav is not None and s["kind"] == "resample":
            judge_resample(ctx, wav, s["target"], s)
        if wav is not None and s["kind"] == "spectrogram":
            judge_spectrogram(ctx, wav, s["window"], s["hop"], s)
