"""Batch jobs over a thread pool, one per property (see rv/core/threads.py for the oracle).

Each ``jobs_<prop>(rng)`` returns ``(name, thunks, norm)``: a list of independent calls of the property's public
function(s), each on its own freshly built arguments, and a normaliser for results.  ``run`` makes them alone and then
in flight together; any difference is a violation of the property for the call made in flight (the per-call oracle is
"same answer as the same call made alone", so no alarm is possible on code whose calls do not share state).
"""

from __future__ import annotations

import random

from rv.core import instrument, threads
from rv.gen import geoms


def _o(fn):
    return instrument.original(fn)


def _specs(rng, n, types=None, styles=("realistic", "dyadic", "edge")):
    return [geoms.random_geom(rng, rng.choice(types or geoms.TYPES), rng.choice(styles)) for _ in range(n)]


def jobs_C03(rng):
    from soundevent import data

    import json

    th = []
    for sp in _specs(rng, 24):
        mode = rng.choice(["dict", "json", "attributes"])
        if mode == "json":
            th.append(lambda sp=sp: data.geometry_validate(json.dumps(sp), mode="json"))
        elif mode == "attributes":
            th.append(lambda sp=sp: data.geometry_validate(geoms.build(sp, how="dict"), mode="attributes"))
        else:
            th.append(lambda sp=sp: data.geometry_validate(dict(sp), mode="dict"))
    return "geometry_validate", th, geoms.to_spec


def jobs_C05(rng):
    from soundevent import geometry as G

    th = []
    for sp in _specs(rng, 24):
        k = rng.choice(["bounds", "features", "point"])
        if k == "bounds":
            th.append(lambda sp=sp: tuple(_o(G.compute_bounds)(geoms.build(sp, how="dict"))))
        elif k == "features":
            th.append(lambda sp=sp: sorted((f.term.name, f.value) for f in _o(G.compute_geometric_features)(geoms.build(sp, how="dict"))))
        else:
            pos = rng.choice(["bottom-left", "top-right", "center", "centroid", "point_on_surface", "top-left"])
            th.append(lambda sp=sp, pos=pos: tuple(_o(G.get_geometry_point)(geoms.build(sp, how="dict"), position=pos)))
    return "geometry_features", th, repr


def jobs_C06(rng):
    from soundevent.evaluation import affinity as A

    th = []
    for _ in range(20):
        b = geoms.random_box(rng, rng.choice(["realistic", "dyadic"]))
        s1 = geoms.geom_in_box(rng, rng.choice(geoms.TYPES), *b)
        s2 = geoms.geom_in_box(rng, rng.choice(geoms.TYPES), b[0] + (b[1] - b[0]) / 3, b[1] + (b[1] - b[0]) / 3, b[2], b[3])
        tb, fb = rng.choice([0.001, 0.01, 0.5, 2.0]), rng.choice([10.0, 100.0, 2000.0])
        th.append(lambda s1=s1, s2=s2, tb=tb, fb=fb: _o(A.compute_affinity)(geoms.build(s1, how="dict"), geoms.build(s2, how="dict"), time_buffer=tb, freq_buffer=fb))
    return "compute_affinity", th, repr


def jobs_C07(rng):
    from soundevent.evaluation import match as M

    th = []
    for _ in range(12):
        b = geoms.random_box(rng, "dyadic")
        w = b[1] - b[0]
        mk = lambda k: geoms.geom_in_box(rng, rng.choice(geoms.TYPES), b[0] + k * w * 0.5, b[1] + k * w * 0.5, b[2], b[3])
        ss, ts = [mk(k) for k in range(rng.randint(1, 5))], [mk(k) for k in range(rng.randint(1, 5))]
        tb, fb = rng.choice([0.001, 0.01, 0.5]), rng.choice([10.0, 100.0, 2000.0])
        th.append(lambda ss=ss, ts=ts, tb=tb, fb=fb: sorted(map(repr, _o(M.match_geometries)([geoms.build(s, how="dict") for s in ss], [geoms.build(t, how="dict") for t in ts],
                                                                                                 time_buffer=tb, freq_buffer=fb))))
    return "match_geometries", th, repr


def jobs_C12(rng):
    from soundevent.geometry import operations as O

    th = []
    for _ in range(24):
        s1, s2 = _specs(rng, 2, styles=("dyadic",))
        a = rng.choice([None, 0.25, 1.0])
        r = None if a is not None else rng.choice([None, 0.25, 0.5])
        f = rng.choice([O.have_temporal_overlap, O.have_frequency_overlap])
        if f is O.have_frequency_overlap and (s1["type"] in geoms.TIME_ONLY or s2["type"] in geoms.TIME_ONLY):
            f = O.have_temporal_overlap
        th.append(lambda s1=s1, s2=s2, a=a, r=r, f=f: _o(f)(geoms.build(s1, how="dict"), geoms.build(s2, how="dict"), min_absolute_overlap=a, min_relative_overlap=r))
    return "overlap_predicates", th, repr


def jobs_C13(rng):
    from soundevent import data
    from soundevent.geometry import operations as O

    rec = data.Recording(path="a.wav", duration=1000.0, channels=1, samplerate=8000)
    th = []
    for _ in range(10):
        n = rng.randint(3, 12)
        gap = rng.choice([0.5, 1.5])
        starts = sorted(rng.uniform(0, 20) for _ in range(n))
        thr = rng.choice([0.3, 1.0, 2.5])

        def job(starts=starts, thr=thr):
            evs = [data.SoundEvent(recording=rec, geometry=data.TimeInterval(coordinates=[s, s + 0.25])) for s in starts]
            cmp = lambda a, b: abs(a.geometry.coordinates[0] - b.geometry.coordinates[0]) <= thr
            seqs = _o(O.group_sound_events)(evs, cmp)
            idx = {e.uuid: i for i, e in enumerate(evs)}
            return sorted(sorted(idx[e.uuid] for e in s.sound_events) for s in seqs)

        th.append(job)
    return "group_sound_events", th, repr


def jobs_C14(rng):
    from soundevent import data
    from soundevent import operations as OP

    rec = data.Recording(path="a.wav", duration=1000.0, channels=1, samplerate=8000)
    th = []
    for _ in range(16):
        st = rng.choice([0.0, 1.5, 10.25]); en = st + rng.choice([2.0, 7.5, 30.0])
        d = rng.choice([0.5, 1.0, 3.0]); h = rng.choice([None, 0.25, 0.5, 2.0]); inc = rng.random() < 0.5
        th.append(lambda st=st, en=en, d=d, h=h, inc=inc: [(c.start_time, c.end_time) for c in _o(OP.segment_clip)(data.Clip(recording=rec, start_time=st, end_time=en), duration=d, hop=h, include_incomplete=inc)])
    return "segment_clip", th, repr


def jobs_C16(rng):
    from soundevent.arrays import dimensions as D

    th = []
    for _ in range(24):
        st = rng.choice([0.0, 0.5, 0.123, 1000.0]); step = rng.choice([0.1, 0.25, 1 / 44100, 0.003]); n = rng.choice([3, 10, 1000])
        th.append(lambda st=st, step=step, n=n: (lambda v: (v.data.tolist()[:5], len(v), v.attrs.get("step")))(_o(D.create_range_dim)("x", st, st + n * step, step=step)))
    return "create_range_dim", th, repr


def jobs_C17(rng):
    import numpy as np
    import xarray as xr

    from soundevent.arrays import dimensions as D
    from soundevent.arrays import operations as AO

    th = []
    for _ in range(20):
        st = rng.choice([0.0, 0.5, -1.0]); step = rng.choice([0.1, 0.25, 0.5]); n = rng.choice([8, 20, 50])
        a, b = st + step * rng.randint(-3, 3), st + step * rng.randint(4, n + 4)
        op = rng.choice(["crop", "extend"])

        def job(st=st, step=step, n=n, a=a, b=b, op=op):
            arr = xr.DataArray(np.arange(n, dtype=float), dims=["x"], coords={"x": D.create_range_dim("x", st, st + n * step, step=step)})
            if op == "crop":
                r = _o(AO.crop_dim)(arr, "x", start=max(a, st), stop=min(b, st + n * step))
            else:
                r = _o(AO.extend_dim)(arr, "x", start=a, stop=b, fill_value=-1.0)
            return r.x.data.round(9).tolist(), r.data.tolist()

        th.append(job)
    return "crop_extend", th, repr


def jobs_C19(rng):
    from soundevent import data
    from soundevent.evaluation import encoding as E

    terms = [data.Term(name=f"t:{k}", label=f"T{k}", definition="d") for k in range(3)]
    pool = [(k, v) for k in range(3) for v in ("a", "b", "c")]
    th = []
    for _ in range(20):
        vocab = rng.sample(pool, rng.randint(1, 5)); lst = [rng.choice(pool) for _ in range(rng.randint(0, 5))]

        def job(vocab=vocab, lst=lst):
            mk = lambda kv: data.Tag(term=terms[kv[0]], value=kv[1])
            enc = _o(E.create_tag_encoder)([mk(kv) for kv in vocab])
            return ([enc.encode(mk(kv)) for kv in lst], list(map(int, _o(E.multilabel_encoding)([mk(kv) for kv in lst], enc))),
                    [(enc.decode(i).value if enc.decode(i) is not None else None) for i in range(len(vocab))])

        th.append(job)
    return "tag_encoding", th, repr


def jobs_C20(rng):
    import numpy as np
    import xarray as xr

    from soundevent.arrays import dimensions as D
    from soundevent.geometry import operations as O

    th = []
    for _ in range(12):
        nt, nf = rng.choice([8, 16]), rng.choice([8, 12])
        t0, dt, f0, df = rng.choice([0.0, 2.0]), rng.choice([0.25, 0.5]), rng.choice([0.0, 1000.0]), rng.choice([250.0, 500.0])
        gs = [geoms.geom_in_box(rng, rng.choice(geoms.TYPES), t0 + dt * rng.randint(0, nt // 2), t0 + dt * rng.randint(nt // 2 + 1, nt), f0 + df * rng.randint(0, nf // 2), f0 + df * rng.randint(nf // 2 + 1, nf))
              for _ in range(rng.randint(1, 3))]
        vals = [float(k + 1) for k in range(len(gs))]

        def job(nt=nt, nf=nf, t0=t0, dt=dt, f0=f0, df=df, gs=gs, vals=vals):
            arr = xr.DataArray(np.zeros((nf, nt)), dims=["frequency", "time"],
                               coords={"time": D.create_range_dim("time", t0, t0 + nt * dt, step=dt), "frequency": D.create_range_dim("frequency", f0, f0 + nf * df, step=df)})
            return _o(O.rasterize)([geoms.build(g, how="dict") for g in gs], arr, values=vals).data.tolist()

        th.append(job)
    return "rasterize", th, repr


def jobs_C01(rng):
    """save + load of independent collections to separate files (a dataset export running on a pool)."""
    import os
    from pathlib import Path

    import soundevent.io.aoef as A
    from rv.gen import graphs
    from rv.props import aoef_common as AC

    root = Path(AC.tmpdir()) / "conc"
    root.mkdir(parents=True, exist_ok=True)
    save, load = _o(A.save), _o(A.load)
    th = []
    for i in range(10):
        kind = rng.choice(graphs.COLLECTIONS)
        gseed = rng.getrandbits(40)
        adir = rng.choice([None, root / "audio"])

        def job(kind=kind, gseed=gseed, adir=adir, i=i):
            obj, _ = graphs.make(kind, gseed, audio_root=root / "audio", p_outside=0.0, p_opt=0.6, p_share=0.4, size=2)
            path = root / f"c-{os.getpid()}-{gseed}-{i}.json"
            save(obj, path, audio_dir=adir)
            text = path.read_text()
            loaded = load(path, audio_dir=adir)
            return (text[text.index('"data"'):], loaded == obj, loaded.model_dump_json())

        th.append(job)
    return "aoef_save_load", th, repr


jobs_C02 = jobs_C01
jobs_C18 = jobs_C01


def jobs_C09(rng):
    """The four evaluation tasks on independent inputs."""
    import warnings

    from rv.props import c09, eval_common as E

    th = []
    for i in range(8):
        task = rng.choice(E.TASKS)
        spec = E.random_case(random.Random(rng.getrandbits(32)), task, n_clips=rng.choice([2, 3, 4]))

        def job(spec=spec):
            cps, cas, tags, _ = E.build(spec)
            with warnings.catch_warnings():
                warnings.simplefilter("ignore")
                ev = _o(c09._task(spec["task"]))(cps, cas, tags)
            return c09.summarise(ev)

        th.append(job)
    return "evaluation_tasks", th, repr


jobs_C08 = jobs_C09


def jobs_C10(rng):
    from soundevent import data
    from soundevent.io.crowsetta import labels as L

    terms = [data.Term(name=f"cz:{k}", label=f"L{k}", definition="d") for k in range(3)]
    th = []
    for i in range(24):
        tags = [data.Tag(term=rng.choice(terms), value=rng.choice("abc")) for _ in range(rng.randint(0, 4))]
        kw = rng.choice([{}, {"index": rng.randint(-3, 3)}, {"select_by_key": rng.choice(["L0", "L1"])}, {"separator": "|"}, {"empty_label": "none"}])
        lab = rng.choice(["x", "L1:b", "", "a,b"])
        if rng.random() < 0.5:
            th.append(lambda tags=tags, kw=kw: _o(L.label_from_tags)(list(tags), **kw))
        else:
            th.append(lambda lab=lab: [(t.term.label, t.value) for t in _o(L.label_to_tags)(lab, key_mapping={"x": "L2"}, fallback="fb")])
    return "crowsetta_labels", th, repr


def jobs_C15(rng):
    """Clips of the same files read from several threads (a data loader with workers)."""
    from soundevent.audio import io as AIO
    from rv.props import c15

    th = []
    # all readers on ONE file (the clips of one recording spread over the workers), many short reads
    files = [(rng.choice([8000, 22050, 44100]), rng.choice([1, 2]), rng.choice([4000, 12001]), rng.getrandbits(16))]
    for i in range(40):
        sr, ch, n, seed = rng.choice(files)
        a = rng.uniform(0, n / sr * 0.8); b = a + rng.uniform(0, n / sr * 0.5)

        def job(sr=sr, ch=ch, n=n, seed=seed, a=a, b=b):
            from soundevent import data

            path, _ = c15.make_file(sr, ch, n, seed)
            rec = data.Recording(path=path, duration=n / sr, channels=ch, samplerate=sr)
            w = _o(AIO.load_clip)(data.Clip(recording=rec, start_time=a, end_time=b))
            return (w.shape, float(w.data.sum()), float(w.time.data[0]) if w.sizes["time"] else None, w.time.attrs.get("step"))

        th.append(job)
    return "load_clip", th, repr


JOBS = {k[5:]: v for k, v in list(globals().items()) if k.startswith("jobs_")}


ROUNDS = {"C15": 8}


def run(ctx, prop, seed):
    rng = random.Random(seed)
    name, thunks, norm = JOBS[prop](rng)
    spec = {"kind": "concurrent", "seed": seed}
    ctx.case(("concurrent", name), spec)
    threads.concurrent_agree(ctx, name, thunks, norm, spec, rounds=ROUNDS.get(prop, 3))


# properties whose concurrent job drives native code that may crash the interpreter when state is shared between calls in
# flight (one libsndfile handle used from two threads): the job runs in a child process, whose death is a finding, not the
# end of the check
IN_CHILD = {"C15"}

_CHILD = r"""
import json, sys
sys.path[:0] = {path!r}
from rv.core.ctx import Ctx
from rv.core import ctx as _c
from rv.props import concurrent_jobs
ctx = Ctx({prop!r}, {tier!r}, 0, 0, 1)
_c.CURRENT = ctx
concurrent_jobs.run(ctx, {prop!r}, {seed})
print("RVCHILD" + json.dumps({{"calls": ctx.monitors.get("concurrent_calls", 0), "violations": ctx.violations, "notes": dict(ctx.notes)}}))
"""


def run_in_child(ctx, prop, seed):
    import json
    import subprocess
    import sys

    spec = {"kind": "concurrent", "seed": seed}
    name = JOBS[prop](random.Random(seed))[0]
    ctx.case(("concurrent", name, "child_process"), spec)
    try:
        r = subprocess.run([sys.executable, "-X", "faulthandler", "-c", _CHILD.format(path=[p for p in sys.path if p], prop=prop, tier=ctx.tier, seed=seed)],
                           capture_output=True, text=True, timeout=900)
    except subprocess.TimeoutExpired:
        ctx.inconclusive_because(f"concurrent_child_timeout:{prop}")
        return
    line = next((l for l in r.stdout.splitlines() if l.startswith("RVCHILD")), None)
    if r.returncode != 0 or line is None:
        if r.returncode < 0 or "Fatal Python error" in r.stderr or "Segmentation fault" in r.stderr:
            ctx.mon("concurrent_calls")
            ctx.violate("concurrent_call_differs", f"concurrent_call_crashes_the_interpreter:{name}", observed={"returncode": r.returncode, "stderr": r.stderr[-600:]},
                        expected="the calls return what they return alone", spec=spec)
        else:
            ctx.inconclusive_because(f"concurrent_child_failed:{prop}:rc={r.returncode}:{r.stderr[-200:]}")
        return
    d = json.loads(line[len("RVCHILD"):])
    ctx.mon("concurrent_calls", d["calls"] or 0)
    for v in d["violations"]:
        ctx.violate(v["sub"], v["key"].split(":", 1)[1], observed=v.get("observed"), expected=v.get("expected"), spec=v.get("spec") or spec)


def run_some(ctx, prop, quick=4, thorough=20):
    for _ in range(ctx.scale(quick, thorough)):
        if prop in IN_CHILD:
            run_in_child(ctx, prop, ctx.rng.getrandbits(32))
        else:
            run(ctx, prop, ctx.rng.getrandbits(32))


def replay(ctx, prop, w):
    for _ in range(5):
        (run_in_child if prop in IN_CHILD else run)(ctx, prop, w["spec"]["seed"])
