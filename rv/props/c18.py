"""C18 — audio paths are stored relative to the audio directory and relocate on load."""

from __future__ import annotations

import json
import os
from pathlib import Path, PurePosixPath

from rv.core import ctx as _ctx
from rv.core.walk import walk
from rv.gen import graphs
from rv.props import aoef_common as AC

ANCHORS = ("io/aoef", "io/saver.py", "io/loader.py")
THOROUGH_SHARDS = 8
AMBIENT_TESTS = ["tests/test_io"]
_spec = None


def _hook(obj, path, audio_dir):
    c = _ctx.CURRENT
    if c is None:
        return
    AC.check_paths_saved(c, obj, Path(path).read_text(), audio_dir, _spec or {"kind": "ambient", "collection": type(obj).__name__})


def _recordings(obj):
    seen = {}
    for _, inst in walk(obj):
        if type(inst).__name__ == "Recording":
            seen.setdefault(str(inst.uuid), inst)
    return seen


def judge(ctx, kind, graph_seed, knobs, a_mode, b_mode, p_outside):
    global _spec
    import soundevent.io as IO

    A = Path(AC.tmpdir()) / "audio root ✓" / "A"
    B = Path(AC.tmpdir()) / "elsewhere" / "B dir"
    if graph_seed % 5 == 0:
        A = Path("relative audio") / "A"       # relative directories are legitimate (lexical arithmetic only)
    if graph_seed % 3 == 1:
        B = Path("other rel") / "B dir"
    # directory names that LOOK like shell syntax are ordinary names to a path (a folder called "$HOME", "~", "%TEMP%")
    if graph_seed % 11 == 3:
        A = Path(AC.tmpdir()) / "$HOME" / "${PATH}" / "A"
    if graph_seed % 11 == 4:
        A = Path("~") / "$HOME" / "A"
    if graph_seed % 13 == 5:
        B = Path(AC.tmpdir()) / "~" / "$HOME"
    if graph_seed % 13 == 6:
        B = Path("$HOME") / "%TEMP%" / "~user"
    graphs.make_link(A)
    obj, gen = graphs.make(kind, graph_seed, audio_root=A, p_outside=p_outside, **knobs)
    recs = _recordings(obj)
    if graph_seed % 7 == 2 and recs:
        # coincidence: the (relative) load directory is spelled like the first component(s) of a stored path
        try:
            rel = PurePosixPath(str(next(iter(recs.values())).path)).relative_to(PurePosixPath(str(A)))
            if len(rel.parts) > 1:
                B = Path(*rel.parts[: 1 + (graph_seed % 2 if len(rel.parts) > 2 else 0)])
        except ValueError:
            pass
    any_outside = any(not str(r.path).startswith(str(A) + "/") for r in recs.values())
    a_arg = {"none": None, "str": str(A), "path": A, "slash": str(A) + "/"}[a_mode]
    b_arg = {"none": None, "same": a_arg, "str": str(B), "path": B}[b_mode]
    _spec = {"kind": "paths", "collection": kind, "graph_seed": graph_seed, "knobs": knobs, "a": a_mode, "b": b_mode, "p_outside": p_outside,
             "recordings": [str(r.path) for r in list(recs.values())[:4]]}
    dirs = {str(Path(r.path).parent) for r in recs.values()}
    ctx.case((kind, a_mode, b_mode, "outside" if any_outside else "inside", "none" if not recs else "one" if len(recs) == 1 else "many"), _spec,
             nontrivial=len(dirs) >= 2)
    path = os.path.join(AC.tmpdir(), f"c18-{os.getpid()}.json")
    sentinel = None
    if os.path.exists(path):
        os.remove(path)
    if graph_seed % 3 == 0:
        sentinel = b'{"sentinel": true}'
        Path(path).write_bytes(sentinel)
    try:
        IO.save(obj, path, audio_dir=a_arg)
        saved = True
    except Exception as e:
        saved = False
        ctx.mon("save_rejection")
        if not (a_arg is not None and any_outside):
            ctx.violate_exc("save_raises", f"save_raises:{kind}:{type(e).__name__}", e, spec=_spec)
        elif not isinstance(e, ValueError):
            ctx.violate_exc("outside_error_type", f"outside_error_type:{type(e).__name__}", e, spec=_spec)
        # nothing else written
        if sentinel is None and os.path.exists(path):
            ctx.violate("failed_save_writes_nothing", "failed_save_writes_nothing:file_created", observed=Path(path).read_text()[:200], expected="no file", spec=_spec)
        if sentinel is not None and Path(path).read_bytes() != sentinel:
            ctx.violate("failed_save_writes_nothing", "failed_save_writes_nothing:file_overwritten", observed=Path(path).read_text()[:200], expected="file untouched", spec=_spec)
    if saved and a_arg is not None and any_outside:
        ctx.violate("outside_recording_rejected", f"outside_recording_rejected:{kind}", observed="save succeeded", expected="error", spec=_spec)
    if not saved:
        _spec = None
        return
    # load under B
    try:
        loaded = IO.load(path, audio_dir=b_arg)
    except Exception as e:
        ctx.violate_exc("load_raises", f"load_raises:{kind}:{type(e).__name__}", e, spec=_spec)
        _spec = None
        return
    ctx.mon("paths_loaded")
    stored = {e["uuid"]: e["path"] for e in (json.loads(Path(path).read_text()).get("data", {}).get("recordings") or [])}
    lrecs = _recordings(loaded)
    if set(lrecs) != set(recs):
        ctx.violate("same_recordings", f"same_recordings:{kind}", observed=len(lrecs), expected=len(recs), spec=_spec)
    for u, r in lrecs.items():
        st = stored.get(u)
        if st is None:
            ctx.violate("recording_in_document", f"recording_in_document:{kind}", observed=u, spec=_spec)
            continue
        if b_arg is None:
            want = PurePosixPath(st)
        else:
            want = PurePosixPath(str(b_arg)) / st
        if PurePosixPath(str(r.path)) != want:
            ctx.violate("relocated", f"relocated:{kind}", observed=str(r.path), expected=str(want), spec=_spec)
        # A/x -> B/x end to end
        orig = recs.get(u)
        if orig is not None and a_arg is not None and b_arg is not None and str(orig.path).startswith(str(A) + "/"):
            rel = PurePosixPath(str(orig.path)).relative_to(PurePosixPath(str(A)))
            if PurePosixPath(str(r.path)) != PurePosixPath(str(b_arg)) / rel:
                ctx.violate("a_to_b", f"a_to_b:{kind}", observed=str(r.path), expected=str(PurePosixPath(str(b_arg)) / rel), spec=_spec)
        if orig is not None and a_arg is None and b_arg is None and PurePosixPath(str(r.path)) != PurePosixPath(str(orig.path)):
            ctx.violate("passthrough", f"passthrough:{kind}", observed=str(r.path), expected=str(orig.path), spec=_spec)
    if ctx.every(_spec, 4):
        # save / load positionally in the documented order (obj, path, audio_dir) / (path, audio_dir)
        p2 = path + ".positional.json"
        try:
            IO.save(obj, p2, a_arg)
            ctx.mon("calling_conventions")
            d1, d2 = json.loads(Path(path).read_text()), json.loads(Path(p2).read_text())
            if d1.get("data") != d2.get("data"):
                ctx.violate("calling_convention", f"calling_convention:save:positional_in_documented_order:{kind}", observed="documents differ", spec=_spec)
            l2 = IO.load(path, b_arg)
            if {u: str(r.path) for u, r in _recordings(l2).items()} != {u: str(r.path) for u, r in lrecs.items()}:
                ctx.violate("calling_convention", f"calling_convention:load:positional_in_documented_order:{kind}", observed="recording paths differ", spec=_spec)
        except Exception as e:
            ctx.violate_exc("load_raises", f"calling_convention_raises:{kind}:{type(e).__name__}", e, spec=_spec)
        finally:
            if os.path.exists(p2):
                os.remove(p2)
    # ---- the same parsed document / the same collection converted again with OTHER directories: each conversion
    # stands on its own (nothing the first one did to the document object or to the recordings may show)
    if ctx.every(_spec, 2):
        from soundevent.io import aoef as AOEF

        try:
            text = Path(path).read_text()
            doc = AOEF.AOEFObject.model_validate_json(text)
            C = Path("third place") / "C"
            seq = [b_arg, C, None, str(B)][graph_seed % 2:][:3]
            for k, d in enumerate(seq):
                out = AOEF.to_soundevent(doc, audio_dir=d)
                ctx.mon("document_reused_with_other_directory")
                for u, r in _recordings(out).items():
                    st = stored.get(u)
                    if st is None:
                        continue
                    want = PurePosixPath(st) if d is None else PurePosixPath(str(d)) / st
                    if PurePosixPath(str(r.path)) != want:
                        ctx.violate("relocated", f"relocated:{kind}:same_document_converted_again", observed={"call": k, "audio_dir": str(d), "path": str(r.path)},
                                    expected=str(want), spec=dict(_spec, directories=[str(x) for x in seq]))
                        break
            # the same collection saved again under OTHER audio directories (the parent of A; a sub-directory that
            # holds none of the recordings): each save is judged by the save monitor on its own directory
            if a_arg is not None and not any_outside and recs:
                p3 = path + ".other_dir.json"
                _keep = _spec
                try:
                    IO.save(obj, p3, audio_dir=A.parent)
                    ctx.mon("saved_again_under_other_directory")
                    try:
                        IO.save(obj, p3, audio_dir=A / "no recording lives here")
                        ctx.violate("outside_recording_rejected", f"outside_recording_rejected:{kind}:after_earlier_save_with_containing_directory", observed="save succeeded", expected="error", spec=_keep)
                    except ValueError:
                        pass
                finally:
                    if os.path.exists(p3):
                        os.remove(p3)
            # the collection adapters are public classes: the audio directory may reach them inside an injected recording
            # adapter instead of their own `audio_dir` argument
            if kind in ("recording_set", "dataset") and a_arg is not None and not any_outside and recs:
                from soundevent.io.aoef.note import NoteAdapter
                from soundevent.io.aoef.recording import RecordingAdapter
                from soundevent.io.aoef.tag import TagAdapter
                from soundevent.io.aoef.user import UserAdapter

                ua, ta = UserAdapter(), TagAdapter()
                na = NoteAdapter(ua)
                ra = RecordingAdapter(ua, ta, na, audio_dir=a_arg)
                cls_ = AOEF.RecordingSetAdapter if kind == "recording_set" else AOEF.DatasetAdapter
                d3 = cls_(user_adapter=ua, tag_adapter=ta, note_adapter=na, recording_adapter=ra).to_aoef(obj)
                ctx.mon("adapter_with_injected_recording_adapter")
                for ro in d3.recordings or []:
                    orig = recs.get(str(ro.uuid))
                    if orig is None:
                        continue
                    want = PurePosixPath(str(orig.path)).relative_to(PurePosixPath(str(A)))
                    if PurePosixPath(str(ro.path)) != want:
                        ctx.violate("stored_relative", f"stored_relative:{kind}:injected_recording_adapter", observed=str(ro.path), expected=str(want), spec=_spec)
                        break
            # and the collection itself, written again under no / another directory
            d2 = AOEF.to_aeof(obj, audio_dir=None)
            ctx.mon("collection_converted_again_without_directory")
            got = {str(r.uuid): str(r.path) for r in (d2.data.recordings or [])}
            for u, r in recs.items():
                if u in got and PurePosixPath(got[u]) != PurePosixPath(str(r.path)):
                    ctx.violate("passthrough", f"passthrough:{kind}:after_save_with_directory", observed=got[u], expected=str(r.path), spec=_spec)
                    break
        except Exception as e:
            ctx.violate_exc("load_raises", f"reconversion_raises:{kind}:{type(e).__name__}", e, spec=_spec)
    _spec = None


CWD_SPELLINGS = {"dot": ".", "empty": "", "dot_slash": "./", "dot_path": Path("."), "empty_path": Path()}


def judge_cwd_dir(ctx, kind, graph_seed, knobs, spelling, relative_root):
    """The audio directory is the working directory, spelled '.', '', './' or Path() (``os.path.dirname('ds.json')`` is
    ''): relative recording paths lie inside it and are stored as they are; an absolute recording path does not, and the
    save fails without writing."""
    import soundevent.io as IO

    A = Path("relative audio") / "A" if relative_root else Path(AC.tmpdir()) / "audio root ✓" / "A"
    obj, gen = graphs.make(kind, graph_seed, audio_root=A, p_outside=0.0, **knobs)
    recs = _recordings(obj)
    spec = {"kind": "cwd_dir", "collection": kind, "graph_seed": graph_seed, "knobs": knobs, "spelling": spelling, "relative_root": relative_root,
            "recordings": [str(r.path) for r in list(recs.values())[:4]]}
    any_abs = any(Path(r.path).is_absolute() for r in recs.values())
    ctx.case((kind, "cwd_dir:" + spelling, "absolute" if any_abs else "relative", "none" if not recs else "some"), spec)
    path = os.path.join(AC.tmpdir(), f"c18-cwd-{os.getpid()}.json")
    if os.path.exists(path):
        os.remove(path)
    AC.HOOKS[:] = []
    try:
        try:
            IO.save(obj, path, audio_dir=CWD_SPELLINGS[spelling])
        except Exception as e:
            ctx.mon("save_rejection")
            if not any_abs:
                ctx.violate_exc("save_raises", f"save_raises:{kind}:{type(e).__name__}", e, spec=spec)
            elif not isinstance(e, ValueError):
                ctx.violate_exc("outside_error_type", f"outside_error_type:{type(e).__name__}", e, spec=spec)
            if os.path.exists(path):
                ctx.violate("failed_save_writes_nothing", "failed_save_writes_nothing:file_created", observed=Path(path).read_text()[:200], expected="no file", spec=spec)
            return
        if any_abs:
            ctx.violate("outside_recording_rejected", f"outside_recording_rejected:{kind}:working_directory_spelling", observed="save succeeded", expected="error", spec=spec)
            return
        ctx.mon("paths_saved")
        stored = {e["uuid"]: e["path"] for e in (json.loads(Path(path).read_text()).get("data", {}).get("recordings") or [])}
        for u, r in recs.items():
            if str(u) in stored and PurePosixPath(stored[str(u)]) != PurePosixPath(str(r.path)):
                ctx.violate("stored_relative", "stored_relative:working_directory_spelling", observed=stored[str(u)], expected=str(r.path), spec=spec)
                return
        loaded = IO.load(path)
        ctx.mon("paths_loaded")
        for u, r in _recordings(loaded).items():
            if u in recs and PurePosixPath(str(r.path)) != PurePosixPath(str(recs[u].path)):
                ctx.violate("loaded_path", "loaded_path:working_directory_spelling", observed=str(r.path), expected=str(recs[u].path), spec=spec)
                return
    finally:
        AC.HOOKS[:] = [_hook]


def run(ctx):
    AC.install()
    AC.HOOKS[:] = [_hook]
    rng = ctx.rng
    from rv.props import concurrent_jobs

    concurrent_jobs.run_some(ctx, "C18", quick=3, thorough=12)        # the same calls from a thread pool (rv/core/threads.py)
    ctx.must_monitors.append("concurrent_calls")
    ctx.rule = ("(collection type, graph, audio dir A as str / Path / trailing slash / None, load dir B same / other / None, recordings inside / outside A); "
                "non-trivial = >= 2 recordings in different sub-directories; distinct = distinct case spec")
    ctx.assumptions += ["paths are compared as spelled (lexically): a '..' hop below the audio directory and a symlinked sub-directory are part of the spelling", "a failed save must leave the target path absent (or byte-identical to a pre-existing file)"]
    ctx.must_monitors += ["paths_saved", "paths_loaded", "save_rejection"]
    ctx.must_reach += ["?io/aoef/recording.py::RecordingAdapter.assemble_aoef", "?io/aoef/recording.py::RecordingAdapter.assemble_soundevent", "io/saver.py::save", "io/loader.py::load"]
    n = ctx.scale(120, 250)
    for kind in graphs.COLLECTIONS:
        for i in range(n):
            knobs = {"p_opt": rng.choice([0.3, 0.8]), "p_share": rng.choice([0.2, 0.6]), "size": rng.choice([1, 2, 3])}
            a = rng.choice(["str", "path", "slash", "none"])
            b = rng.choice(["same", "str", "path", "none"]) if a != "none" else rng.choice(["none", "none", "str"])
            po = rng.choice([0.0, 0.0, 0.0, 0.3, 1.0])
            judge(ctx, kind, rng.getrandbits(40), knobs, a, b, po)
        for i in range(ctx.scale(10, 40)):
            knobs = {"p_opt": rng.choice([0.3, 0.8]), "p_share": rng.choice([0.2, 0.6]), "size": rng.choice([1, 2])}
            judge_cwd_dir(ctx, kind, rng.getrandbits(40), knobs, rng.choice(list(CWD_SPELLINGS)), rng.random() < 0.5)


def replay(ctx, w):
    AC.install()
    AC.HOOKS[:] = [_hook]
    s = w["spec"]
    if s.get("kind") == "cwd_dir":
        judge_cwd_dir(ctx, s["collection"], s["graph_seed"], s["knobs"], s["spelling"], s["relative_root"])
        return
    judge(ctx, s["collection"], s["graph_seed"], s["knobs"], s["a"], s["b"], s["p_outside"])


def ambient_install():
    AC.install()
    AC.HOOKS[:] = [_hook]
