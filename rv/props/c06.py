"""C06 — affinity is a symmetric intersection-over-union in [0, 1]."""

from __future__ import annotations

import itertools
import math
from fractions import Fraction as F

from rv.core import ctx as _ctx
from rv.core import calling, instrument
from rv.core.tolerances import GEOS_BUFFER_SIMPLIFY, REAL_TOL, ROUND_CAP_SHORTFALL, SHIFT_TOL
from rv.gen import geoms

ANCHORS = ("evaluation/affinity.py", "geometry/operations.py", "geometry/conversion.py")
THOROUGH_SHARDS = 12
AMBIENT_TESTS = ["tests/test_evaluation", "tests/test_geometry"]
_installed = False
_orig = None
_orig_buffer = None
FULL = False  # relational re-invocations only during C06's own workload
_busy = False


def _fin(*xs):
    return all(isinstance(x, (int, float)) and not isinstance(x, bool) and math.isfinite(x) for x in xs)


def buffered_time_extent(spec, g, tb, fb):
    """Time extent of the geometry *as buffered by the library* (statement wording)."""
    t = spec["type"]
    if t == "TimeStamp":
        c = spec["coordinates"]
        return (max(c - tb, 0), c + tb)
    if t in ("TimeInterval", "BoundingBox", "Polygon", "MultiPolygon"):
        b = geoms.ref_bounds(spec)
        return (b[0], b[2])
    from soundevent.geometry import operations as O

    buf = instrument.original(O.buffer_geometry)(g, time_buffer=tb, freq_buffer=fb)
    b = geoms.ref_bounds(geoms.to_spec(buf))
    # independent sanity bound: whatever joins do, the buffered time extent must reach the
    # original extent widened by the buffer (minus the polygonal-cap / GEOS simplification band),
    # clipped at time 0 — otherwise "IoU of the buffered time extents" is computed on a wrong extent
    b0 = geoms.ref_bounds(spec)
    k = 1 - ROUND_CAP_SHORTFALL - GEOS_BUFFER_SIMPLIFY
    lo_need, hi_need = max(b0[0] - k * tb, 0.0), b0[2] + k * tb
    c = _ctx.CURRENT
    if c is not None:
        c.mon("affinity.buffered_extent_sanity")
        slack = 1e-9 * max(1.0, abs(b0[2]))
        if b[0] > lo_need + slack or b[2] < hi_need - slack:
            c.violate("buffered_time_extent", "buffered_time_extent_too_small", observed=[b[0], b[2]], expected={"at_least": [lo_need, hi_need]},
                      spec={"kind": "buffered_extent", "g": spec, "tb": tb, "fb": fb})
    return (b[0], b[2])


def _sub_tolerance_zigzag(spec, tb, fb):
    """Mechanism predicate of the open C06 finding: a line with corners (a part with >= 3 vertices) whose segments are
    shorter than 1 % of the buffer in buffer units.  GEOS simplifies buffer input at exactly that tolerance, so which
    vertices survive -- and with mitre joins, which spikes appear -- flips with the last bits of the coordinates."""
    if spec["type"] not in ("LineString", "MultiLineString") or not (tb > 0 and fb > 0):
        return False
    parts = [spec["coordinates"]] if spec["type"] == "LineString" else spec["coordinates"]
    for part in parts:
        if len(part) >= 3 and any(math.hypot((b[0] - a[0]) / tb, (b[1] - a[1]) / fb) < 0.01 for a, b in zip(part, part[1:])):
            return True
    return False


def _iou_1d(a, b):
    inter = max(0, min(a[1], b[1]) - max(a[0], b[0]))
    union = (a[1] - a[0]) + (b[1] - b[0]) - inter
    return 0 if union == 0 else inter / union


def _box_iou(c1, c2):
    w = max(0.0, min(c1[2], c2[2]) - max(c1[0], c2[0]))
    h = max(0.0, min(c1[3], c2[3]) - max(c1[1], c2[1]))
    inter = w * h
    a1 = (c1[2] - c1[0]) * (c1[3] - c1[1])
    a2 = (c2[2] - c2[0]) * (c2[3] - c2[1])
    union = a1 + a2 - inter
    return 0 if union == 0 else inter / union


def _post_affinity(geometry1, geometry2, time_buffer, freq_buffer, result):
    global _busy
    c = _ctx.CURRENT
    if c is None or _busy:
        return True
    g1, g2, tb, fb = geometry1, geometry2, time_buffer, freq_buffer
    if not _fin(tb, fb) or tb < 0 or fb < 0:
        c.ood("affinity:buffers")
        return True
    s1, s2 = geoms.to_spec(g1), geoms.to_spec(g2)
    low_dim = s1["type"] in geoms.ZERO_ONE_D or s2["type"] in geoms.ZERO_ONE_D
    if low_dim and not (tb > 0 and fb > 0):
        c.ood("affinity:zero_buffer_with_0_or_1d_geometry")
        return True
    # (intervals and boxes are given in closed form: one drawn without duration or bandwidth is a legitimate geometry of
    # zero extent -- the statement exempts it only from the self-affinity clause -- although shapely calls the flat ring invalid)
    if not all(s["type"] in ("TimeStamp", "TimeInterval", "BoundingBox") or geoms.is_shapely_valid(g) for s, g in ((s1, g1), (s2, g2))):
        c.ood("affinity:invalid_geometry")
        return True
    c.mon("compute_affinity.post")
    spec = {"kind": "affinity", "g1": s1, "g2": s2, "tb": tb, "fb": fb}
    v = result
    # (a) range — the statement says "never more"
    if not (isinstance(v, (int, float)) and 0 <= v <= 1):
        key = "range"
        if isinstance(v, (int, float)) and 1 < v <= 1 + 1e-9:
            key = "range:ulp_above_one"
        c.violate("range", key, observed=v, expected="0 <= v <= 1", spec=spec)
    _busy = True
    try:
        time_only = s1["type"] in geoms.TIME_ONLY or s2["type"] in geoms.TIME_ONLY
        e1 = buffered_time_extent(s1, g1, tb, fb)
        e2 = buffered_time_extent(s2, g2, tb, fb)
        # (d) buffered geometries disjoint in time => exactly 0
        if e1[1] < e2[0] or e2[1] < e1[0]:
            c.mon("affinity.time_disjoint")
            if v != 0:
                c.violate("time_disjoint_is_zero", "time_disjoint_is_zero", observed=v, expected=0, spec=spec)
        # (f) time-only => IoU of buffered time extents
        if time_only:
            c.mon("affinity.time_only")
            want = _iou_1d(e1, e2)
            if abs(v - want) > REAL_TOL:
                c.violate("time_only_iou", "time_only_iou", observed=v, expected=want, spec=spec)
        # (e) box-box closed form
        if s1["type"] == "BoundingBox" and s2["type"] == "BoundingBox":
            c.mon("affinity.box_box")
            want = _box_iou(s1["coordinates"], s2["coordinates"])
            if abs(v - want) > REAL_TOL:
                c.violate("box_iou", "box_iou", observed=v, expected=want, spec=spec)
        if FULL:
            # (b) symmetry
            c.mon("affinity.symmetry")
            v2 = _orig(g2, g1, time_buffer=tb, freq_buffer=fb)
            if abs(v - v2) > REAL_TOL:
                c.violate("symmetry", "symmetry", observed=[v, v2], expected="equal", spec=spec)
            # (g) shift invariance
            lo = min(e1[0], e2[0])
            b1, b2 = geoms.ref_bounds(s1), geoms.ref_bounds(s2)
            # geometries whose coordinates are >= 1e6 buffer units (e.g. a 5 MHz line with a 1 Hz buffer) are
            # buffered in a space where GEOS round-off in the mitre joins is amplified: not judged for shifts
            ratio = max(max(b1[2], b2[2]) / tb if tb else 0, max(b1[3], b2[3]) / fb if fb else 0)
            if ratio >= 1e6 and (s1["type"] in geoms.ZERO_ONE_D or s2["type"] in geoms.ZERO_ONE_D):
                c.dc("shift:coordinate_over_buffer_ratio>=1e6")
            elif min(b1[0], b2[0]) - tb > 0 and lo > 0 and (_sub_tolerance_zigzag(s1, tb, fb) or _sub_tolerance_zigzag(s2, tb, fb)):
                # open finding: judged, but keyed by its mechanism (see known_findings.json)
                dt = [0.5, 3.0, 17.25, 1000.0][hash((s1["type"], s2["type"], round(lo, 3))) % 4]
                c.mon("affinity.shift")
                v3 = _orig(geoms.build(geoms.shift_time(s1, dt)), geoms.build(geoms.shift_time(s2, dt)), time_buffer=tb, freq_buffer=fb)
                if abs(v - v3) > SHIFT_TOL:
                    c.violate("shift_invariance", "shift_invariance:sub_tolerance_zigzag", observed=[v, v3], expected=f"|dv| <= {SHIFT_TOL}", spec=dict(spec, dt=dt))
            elif min(b1[0], b2[0]) - tb > 0 and lo > 0:
                dt = [0.5, 3.0, 17.25, 1000.0][hash((s1["type"], s2["type"], round(lo, 3))) % 4]
                c.mon("affinity.shift")
                v3 = _orig(geoms.build(geoms.shift_time(s1, dt)), geoms.build(geoms.shift_time(s2, dt)), time_buffer=tb, freq_buffer=fb)
                if abs(v - v3) > SHIFT_TOL:
                    c.violate("shift_invariance", "shift_invariance", observed=[v, v3], expected=f"|dv| <= {SHIFT_TOL}", spec=dict(spec, dt=dt))
    finally:
        _busy = False
    return True


def install():
    global _installed, _orig
    if _installed:
        return
    _orig = instrument.ensure("soundevent.evaluation.affinity", "compute_affinity", _post_affinity)
    _installed = True


def _nonzero_extent(g, spec, tb, fb):
    from soundevent.geometry import conversion
    from soundevent.geometry import operations as O

    t = spec["type"]
    if t == "TimeStamp":
        return tb > 0
    if t == "TimeInterval":
        return spec["coordinates"][1] > spec["coordinates"][0]
    if t in geoms.ZERO_ONE_D:
        g = instrument.original(O.buffer_geometry)(g, time_buffer=tb, freq_buffer=fb)
    return instrument.original(conversion.geometry_to_shapely)(g).area > 0


def judge(ctx, s1, s2, tb, fb):
    from soundevent.evaluation import affinity as A

    spec = {"kind": "affinity", "g1": s1, "g2": s2, "tb": tb, "fb": fb}
    g1, g2 = geoms.build(s1), geoms.build(s2)
    if ctx.evaluations % 5 == 0:
        g1, g2 = geoms.build_derived(s1, ctx.rng), geoms.build_derived(s2, ctx.rng)
    same_obj = False
    if s1 == s2 and ctx.evaluations % 2:
        g2 = g1               # compared with itself: the very same object on both sides
        same_obj = True
        ctx.mon("affinity.same_object_twice")
    try:
        A.compute_affinity(g1, g2, time_buffer=tb, freq_buffer=fb)
        if tb > 0 and fb > 0 and ctx.evaluations % 3 == 0:
            # the same two objects again with other buffers, and then with the first ones: each call is judged on
            # its own by the postcondition, so anything remembered from an earlier call shows up
            A.compute_affinity(g1, g2, time_buffer=tb * 5, freq_buffer=fb * 3)
            A.compute_affinity(g1, g2, time_buffer=tb, freq_buffer=fb)
            # ... and after one of them has been moved in place
            geoms.edit_in_place(g2, ctx.rng)
            A.compute_affinity(g1, g2, time_buffer=tb, freq_buffer=fb)
            g2 = geoms.build(s2, how="dict")
            if same_obj:
                g1 = geoms.build(s1, how="dict")      # (the one object on both sides was moved: both names get fresh geometries again)
    except Exception as e:
        ctx.violate_exc("raises", f"raises:{type(e).__name__}", e, spec=spec)
        return
    if ctx.every(spec, 4):
        calling.agree(ctx, "compute_affinity", _orig, dict(geometry1=geoms.build(s1, how="dict"), geometry2=geoms.build(s2, how="dict"), time_buffer=tb, freq_buffer=fb), spec,
                      variants={"numlike_buffers": {"time_buffer": calling.numlike(ctx.rng, tb), "freq_buffer": calling.numlike(ctx.rng, fb)}})
    # (c) self affinity
    for s, g in ((s1, g1), (s2, g2)):
        if not geoms.is_shapely_valid(g):
            continue
        if s["type"] in geoms.ZERO_ONE_D and not (tb > 0 and fb > 0):
            continue
        if _nonzero_extent(g, s, tb, fb):
            ctx.mon("affinity.self")
            try:
                v = A.compute_affinity(g, geoms.build(s), time_buffer=tb, freq_buffer=fb)
            except Exception as e:
                ctx.violate_exc("raises", f"raises:{type(e).__name__}", e, spec={"kind": "affinity", "g1": s, "g2": s, "tb": tb, "fb": fb})
                continue
            if not (1 - REAL_TOL <= v):
                ctx.violate("self_is_one", "self_is_one", observed=v, expected=1, spec={"kind": "affinity", "g1": s, "g2": s, "tb": tb, "fb": fb})



# ------------------------------------------------------------------ lattice pairs (exact IoU by cell counting)
LAT_N = 8


def _skyline(rng, a, b, lo, hi_max, t0, dt, f0, df, hanging=False):
    """Rectilinear simple polygon over columns a..b-1 with a flat side at ``lo`` and varying heights (L, U, T, stairs)."""
    hs = [rng.randint(1, hi_max) for _ in range(a, b)]
    if b - a >= 3 and rng.random() < 0.5:      # make a U: tall arms, short middle
        hs[0] = hs[-1] = hi_max
        for k in range(1, len(hs) - 1):
            hs[k] = rng.randint(1, max(1, hi_max - 1))
    pts = [(a, lo), (b, lo)]
    for k in range(len(hs) - 1, -1, -1):
        pts.append((a + k + 1, lo + hs[k]))
        pts.append((a + k, lo + hs[k]))
    ring = []
    for i, j in pts + [pts[0]]:
        jj = (lo + hi_max - (j - lo)) if hanging else j
        p = [t0 + i * dt, f0 + jj * df]
        if not ring or ring[-1] != p:
            ring.append(p)
    return ring


def lattice_geom(rng, t0, dt, f0, df):
    """An areal geometry whose vertices lie on a coarse shared lattice, with axis-parallel edges."""
    N = LAT_N
    kind = rng.choice(["box", "skyline", "skyline", "multibox", "multi", "holed"])
    if kind == "box":
        a, b = sorted(rng.sample(range(N + 1), 2)); c, d = sorted(rng.sample(range(N + 1), 2))
        return {"type": "BoundingBox", "coordinates": [t0 + a * dt, f0 + c * df, t0 + b * dt, f0 + d * df]}
    if kind == "skyline":
        a = rng.randint(0, N - 2); b = rng.randint(a + 1, N)
        lo = rng.randint(0, N - 2); hm = rng.randint(1, N - lo)
        return {"type": "Polygon", "coordinates": [_skyline(rng, a, b, lo, hm, t0, dt, f0, df, hanging=rng.random() < 0.4)]}
    if kind == "holed":
        a, c = rng.randint(0, N - 4), rng.randint(0, N - 4)
        w, h = rng.randint(3, N - a), rng.randint(3, N - c)
        ha, hc = rng.randint(a + 1, a + w - 2), rng.randint(c + 1, c + h - 2)
        hw, hh = rng.randint(1, a + w - 1 - ha), rng.randint(1, c + h - 1 - hc)
        box = lambda i0, j0, i1, j1: [[t0 + i0 * dt, f0 + j0 * df], [t0 + i1 * dt, f0 + j0 * df], [t0 + i1 * dt, f0 + j1 * df], [t0 + i0 * dt, f0 + j1 * df], [t0 + i0 * dt, f0 + j0 * df]]
        return {"type": "Polygon", "coordinates": [box(a, c, a + w, c + h), box(ha, hc, ha + hw, hc + hh)]}
    # several members in column ranges separated by at least one empty column
    polys, col = [], 0
    while col < N - 1 and len(polys) < 3:
        a = rng.randint(col, min(col + 2, N - 1)); b = rng.randint(a + 1, min(a + 3, N))
        lo = rng.randint(0, N - 2); hm = rng.randint(1, N - lo)
        if kind == "multibox":
            ring = [[t0 + a * dt, f0 + lo * df], [t0 + b * dt, f0 + lo * df], [t0 + b * dt, f0 + (lo + hm) * df], [t0 + a * dt, f0 + (lo + hm) * df], [t0 + a * dt, f0 + lo * df]]
        else:
            ring = _skyline(rng, a, b, lo, hm, t0, dt, f0, df, hanging=rng.random() < 0.4)
        polys.append([ring])
        col = b + 1
    return {"type": "MultiPolygon", "coordinates": polys}


def _in_ring(x, y, ring):
    inside = False
    for (x1, y1), (x2, y2) in zip(ring, ring[1:]):
        if (y1 > y) != (y2 > y) and x < x1 + (y - y1) * (x2 - x1) / (y2 - y1):
            inside = not inside
    return inside


def lattice_cells(spec, t0, dt, f0, df):
    """Cells of the lattice covered by the geometry: even-odd test of each cell centre (no shapely involved)."""
    t, c = spec["type"], spec["coordinates"]
    out = set()
    for i in range(LAT_N):
        for j in range(LAT_N):
            x, y = t0 + (i + 0.5) * dt, f0 + (j + 0.5) * df
            if t == "BoundingBox":
                hit = c[0] < x < c[2] and c[1] < y < c[3]
            else:
                polys = [c] if t == "Polygon" else c
                hit = any(_in_ring(x, y, p[0]) and not any(_in_ring(x, y, h) for h in p[1:]) for p in polys)
            if hit:
                out.add((i, j))
    return out


def judge_lattice(ctx, s1, s2, lat, tb, fb):
    """Areal geometries are not buffered, so the affinity of two lattice shapes is a ratio of cell counts."""
    from soundevent.evaluation import affinity as A

    c1, c2 = lattice_cells(s1, *lat), lattice_cells(s2, *lat)
    union = len(c1 | c2)
    want = 0.0 if union == 0 else len(c1 & c2) / union
    spec = {"kind": "lattice", "g1": s1, "g2": s2, "lat": list(lat), "tb": tb, "fb": fb}
    try:
        g1, g2 = geoms.build(s1), geoms.build(s2)
        if not (geoms.is_shapely_valid(g1) and geoms.is_shapely_valid(g2)):
            ctx.ood("lattice:invalid_geometry")
            return
        v12 = A.compute_affinity(g1, g2, time_buffer=tb, freq_buffer=fb)
        v21 = A.compute_affinity(g2, g1, time_buffer=tb, freq_buffer=fb)
    except Exception as e:
        ctx.violate_exc("raises", f"raises:{type(e).__name__}", e, spec=spec)
        return
    ctx.mon("affinity.areal_iou_on_lattice")
    touching = bool(c1 and c2) and not (c1 & c2)
    ctx.note("lattice:" + ("overlap" if c1 & c2 else "touch_or_apart"))
    for v in (v12, v21):
        if abs(v - want) > REAL_TOL:
            ctx.violate("areal_iou", "areal_iou", observed=[v12, v21], expected=want, spec=spec)
            break


# ------------------------------------------------------------------ polygon x box, exact by clipping
def _clip_area(ring, x0, y0, x1, y1):
    """Area of (simple polygon ring) intersected with the rectangle, in exact rational arithmetic
    (Sutherland-Hodgman against the four half-planes; zero-width bridges it may leave do not change the shoelace sum)."""
    pts = [(F(p[0]), F(p[1])) for p in (ring[:-1] if ring[0] == ring[-1] else ring)]
    for axis, bound, keep_ge in ((0, F(x0), True), (0, F(x1), False), (1, F(y0), True), (1, F(y1), False)):
        out = []
        for a, b in zip(pts, pts[1:] + pts[:1]):
            ina = a[axis] >= bound if keep_ge else a[axis] <= bound
            inb = b[axis] >= bound if keep_ge else b[axis] <= bound
            if ina != inb:
                t = (bound - a[axis]) / (b[axis] - a[axis])
                cross = (a[0] + t * (b[0] - a[0]), a[1] + t * (b[1] - a[1]))
            if ina and inb:
                out.append(b)
            elif ina and not inb:
                out.append(cross)
            elif not ina and inb:
                out.append(cross); out.append(b)
        pts = out
        if not pts:
            return F(0)
    return abs(sum(a[0] * b[1] - b[0] * a[1] for a, b in zip(pts, pts[1:] + pts[:1]))) / 2


def _ring_area(ring):
    pts = [(F(p[0]), F(p[1])) for p in (ring[:-1] if ring[0] == ring[-1] else ring)]
    return abs(sum(a[0] * b[1] - b[0] * a[1] for a, b in zip(pts, pts[1:] + pts[:1]))) / 2


def lattice_star(rng, t0, dt, f0, df):
    """A simple (usually non-convex) polygon with 5-9 vertices on lattice points, by angle around an interior point."""
    N = LAT_N
    cx, cy = rng.uniform(2.5, N - 2.5), rng.uniform(2.5, N - 2.5)
    k = rng.randint(5, 9)
    pts = set()
    while len(pts) < k:
        pts.add((rng.randint(0, N), rng.randint(0, N)))
    pts = sorted(pts, key=lambda p: math.atan2(p[1] - cy, p[0] - cx))
    ring = [[t0 + i * dt, f0 + j * df] for i, j in pts]
    return {"type": "Polygon", "coordinates": [ring + [ring[0]]]}


def judge_polygon_box(ctx, sp, sb, tb, fb):
    from soundevent.evaluation import affinity as A

    spec = {"kind": "polygon_box", "g1": sp, "g2": sb, "tb": tb, "fb": fb}
    ring = sp["coordinates"][0]
    x0, y0, x1, y1 = sb["coordinates"]
    inter = _clip_area(ring, x0, y0, x1, y1)
    union = _ring_area(ring) + F(x1 - x0) * F(y1 - y0) - inter
    want = 0.0 if union == 0 else float(inter / union)
    try:
        gp, gb = geoms.build(sp), geoms.build(sb)
        if not geoms.is_shapely_valid(gp):
            ctx.ood("polygon_box:not_simple")
            return
        v12 = A.compute_affinity(gp, gb, time_buffer=tb, freq_buffer=fb)
        v21 = A.compute_affinity(gb, gp, time_buffer=tb, freq_buffer=fb)
    except Exception as e:
        ctx.violate_exc("raises", f"raises:{type(e).__name__}", e, spec=spec)
        return
    ctx.mon("affinity.polygon_box_exact")
    if abs(v12 - want) > REAL_TOL or abs(v21 - want) > REAL_TOL:
        ctx.violate("areal_iou", "areal_iou:polygon_box", observed=[v12, v21], expected=want, spec=spec)

PLACEMENTS = ["identical", "nested", "partial", "touching", "time_disjoint", "far"]
BUFFERS = {"small": (1e-3, 10.0), "default": (0.01, 100.0), "large": (1.0, 5000.0), "huge": (4.0, 20000.0), "zero": (0.0, 0.0)}


def place(rng, b1, placement, tb):
    t0, t1, f0, f1 = b1
    w, h = t1 - t0, f1 - f0
    if placement == "identical":
        return b1
    if placement == "nested":
        return (t0 + w / 4, t1 - w / 4, f0 + h / 4, f1 - h / 4)
    if placement == "partial":
        return (t0 + w / 2, t1 + w / 2, f0 + h / 4, min(f1 + h / 4, geoms.MAXF))
    if placement == "touching":
        return (t1, t1 + w, f0, f1)
    if placement == "time_disjoint":
        gap = 2 * tb * 1.5 + 0.25 + w
        return (t1 + gap, t1 + gap + w, f0, f1)
    return (t1 + 1000.0, t1 + 1000.0 + w, f0, f1)


def run(ctx):
    global FULL
    install()
    FULL = True
    rng = ctx.rng
    from rv.props import concurrent_jobs

    concurrent_jobs.run_some(ctx, "C06")        # the same calls from a thread pool (rv/core/threads.py)
    ctx.must_monitors.append("concurrent_calls")
    ctx.rule = ("ordered geometry pairs over all 81 type combinations x placement {identical, nested, partial, touching, time-disjoint, far} x buffer class; "
                "non-trivial = the two geometries differ or have different types; distinct = distinct (g1, g2, buffers)")
    ctx.assumptions += ["valid, non-self-intersecting geometries; buffers strictly positive when a 0/1-D geometry takes part",
                        "'buffered extent' of points/lines = bounds of the library's own buffer_geometry result (C11 constrains that function)",
                        f"derived reals compared at {REAL_TOL}; shift invariance at {SHIFT_TOL}",
                        "areal (box / polygon / multi-polygon) pairs with axis-parallel edges on a shared dyadic lattice: the value is the ratio of "
                        "shared to covered lattice cells (the library documents the value as intersection area over union area; areal types are not buffered)"]
    ctx.must_monitors += ["compute_affinity.post", "affinity.symmetry", "affinity.shift", "affinity.self", "affinity.time_only", "affinity.box_box", "affinity.time_disjoint", "affinity.areal_iou_on_lattice"]
    ctx.must_reach += ["evaluation/affinity.py::compute_affinity", "?evaluation/affinity.py::compute_affinity_in_time", "evaluation/affinity.py::_prepare_geometry"]

    # directed: identical points/lines (self affinity slightly above one on the pinned tree), zero-extent pairs
    directed = [
        ({"type": "Point", "coordinates": [1.0, 1000.0]}, {"type": "Point", "coordinates": [1.0, 1000.0]}, 0.01, 100.0),
        ({"type": "LineString", "coordinates": [[1.0, 1000.0], [2.0, 3000.0]]}, {"type": "LineString", "coordinates": [[1.0, 1000.0], [2.0, 3000.0]]}, 0.01, 100.0),
        ({"type": "TimeStamp", "coordinates": 1.0}, {"type": "TimeStamp", "coordinates": 1.0}, 0.0, 0.0),
        ({"type": "TimeInterval", "coordinates": [1.0, 1.0]}, {"type": "TimeInterval", "coordinates": [1.0, 1.0]}, 0.0, 0.0),
        ({"type": "BoundingBox", "coordinates": [1.0, 100.0, 1.0, 200.0]}, {"type": "BoundingBox", "coordinates": [1.0, 100.0, 1.0, 200.0]}, 0.0, 0.0),
        ({"type": "BoundingBox", "coordinates": [0.0, 0.0, 2.0, 1000.0]}, {"type": "BoundingBox", "coordinates": [1.0, 0.0, 3.0, 1000.0]}, 0.0, 0.0),
    ]
    for s1, s2, tb, fb in directed:
        ctx.case(("directed", s1["type"], s2["type"]), {"g1": s1, "g2": s2, "tb": tb, "fb": fb}, nontrivial=False)
        judge(ctx, s1, s2, tb, fb)

    pairs = list(itertools.product(geoms.TYPES, repeat=2))
    reps = ctx.scale(1, 6)
    k = 0
    seen_pairs = set()
    for rep in range(reps):
        for t1, t2 in pairs:
            for placement in PLACEMENTS:
                for bname in ("small", "default", "large", "huge", "zero"):
                    low = t1 in geoms.ZERO_ONE_D or t2 in geoms.ZERO_ONE_D
                    if bname == "zero" and low:
                        continue
                    k += 1
                    if not ctx.thorough and k % 2 and rep == 0 and bname != "default":
                        continue
                    tb, fb = BUFFERS[bname]
                    style = rng.choice(["realistic", "realistic", "dyadic", "edge"])
                    b1 = geoms.random_box(rng, style)
                    if style == "edge" and b1[0] == 0.0 and placement in ("nested",):
                        pass
                    b2 = place(rng, b1, placement, tb)
                    if not (b2[1] > b2[0] and b2[3] > b2[2]):
                        b2 = b1
                    s1 = geoms.geom_in_box(rng, t1, *b1)
                    s2 = s1 if (placement == "identical" and t1 == t2 and rng.random() < 0.5) else geoms.geom_in_box(rng, t2, *b2)
                    seen_pairs.add((t1, t2))
                    ctx.case((t1, t2, placement, bname), {"g1": s1, "g2": s2, "tb": tb, "fb": fb}, nontrivial=(s1 != s2))
                    judge(ctx, s1, s2, tb, fb)
    # long contours (a pitch track sampled every few milliseconds) against geometries that meet only their last stretch
    if ctx.shard == 0 or ctx.thorough:
        for nv in (300, 600, 1001, 2000):
            t0 = rng.choice([1.0, 30.0])
            pts = [[t0 + 0.004 * i, 2000.0 + 800.0 * math.sin(i / 7.0)] for i in range(nv - 1)]
            tail = rng.choice([0.004, 0.5, 2.0])
            pts.append([pts[-1][0] + tail, 2400.0])
            line = {"type": "LineString", "coordinates": pts}
            mline = {"type": "MultiLineString", "coordinates": [pts[: nv // 3], pts[nv // 3:]]}
            end = pts[-1][0]
            others = [{"type": "TimeInterval", "coordinates": [end - tail * 0.75, end + 0.5]}, {"type": "TimeStamp", "coordinates": end},
                      {"type": "BoundingBox", "coordinates": [end - tail * 0.5, 1000.0, end + 1.0, 4000.0]},
                      {"type": "TimeInterval", "coordinates": [t0, end]}]
            for g1 in (line, mline):
                for g2 in others:
                    for tb, fb in ((0.01, 100.0), (0.001, 10.0)):
                        a, b = (g1, g2) if rng.random() < 0.5 else (g2, g1)
                        ctx.case((a["type"], b["type"], "long_contour", nv), {"g1": {"type": g1["type"], "n_vertices": nv, "tail": tail}, "g2": g2, "tb": tb, "fb": fb})
                        judge(ctx, a, b, tb, fb)
    # zero-extent intervals and boxes (an annotator's click-and-release; a tonal call drawn as a flat box) against every
    # type, inside / on the edge of / away from the other geometry's extent
    for t2 in geoms.TYPES:
        for flat in ("zero_duration_box", "zero_bandwidth_box", "point_box", "zero_interval"):
            for where in ("inside", "edge", "time_disjoint"):
                for bname in ("default", "large", "zero"):
                    if bname == "zero" and t2 in geoms.ZERO_ONE_D:
                        continue
                    tb, fb = BUFFERS[bname]
                    b2 = geoms.random_box(rng, rng.choice(["realistic", "dyadic"]))
                    s2 = geoms.geom_in_box(rng, t2, *b2)
                    tm = {"inside": (b2[0] + b2[1]) / 2, "edge": b2[1], "time_disjoint": b2[1] + 3 * tb + 1.0}[where]
                    fm = (b2[2] + b2[3]) / 2
                    if flat == "zero_duration_box":
                        s1 = {"type": "BoundingBox", "coordinates": [tm, b2[2], tm, b2[3]]}
                    elif flat == "zero_bandwidth_box":
                        s1 = {"type": "BoundingBox", "coordinates": [b2[0] if where != "time_disjoint" else tm, fm, tm if where != "time_disjoint" else tm + 1.0, fm]}
                    elif flat == "point_box":
                        s1 = {"type": "BoundingBox", "coordinates": [tm, fm, tm, fm]}
                    else:
                        s1 = {"type": "TimeInterval", "coordinates": [tm, tm]}
                    if rng.random() < 0.5:
                        s1, s2 = s2, s1
                    ctx.case((s1["type"], s2["type"], "zero_extent:" + flat, where, bname), {"g1": s1, "g2": s2, "tb": tb, "fb": fb})
                    judge(ctx, s1, s2, tb, fb)
    if len(seen_pairs) < 81:
        ctx.inconclusive_because(f"type_pair_cells_empty:{81 - len(seen_pairs)}")
    ctx.extra["type_pairs_covered"] = len(seen_pairs)

    # random buffers / random placement
    for _ in range(ctx.scale(400, 4000)):
        t1, t2 = rng.choice(geoms.TYPES), rng.choice(geoms.TYPES)
        tb = rng.choice([1e-4, 0.003, 0.01, 0.05, 0.5, 2.0, 7.5]); fb = rng.choice([1.0, 30.0, 100.0, 1000.0, 20000.0])
        b1 = geoms.random_box(rng, rng.choice(["realistic", "edge", "dyadic"]))
        dt = rng.uniform(-1.5, 1.5) * (b1[1] - b1[0]); df = rng.uniform(-1.5, 1.5) * (b1[3] - b1[2])
        sc = rng.choice([0.3, 1.0, 2.5])
        t0 = max(b1[0] + dt, 0.0); f0 = min(max(b1[2] + df, 0.0), geoms.MAXF - 1.0)
        b2 = (t0, t0 + (b1[1] - b1[0]) * sc, f0, min(f0 + (b1[3] - b1[2]) * sc, geoms.MAXF))
        s1, s2 = geoms.geom_in_box(rng, t1, *b1), geoms.geom_in_box(rng, t2, *b2)
        ctx.case((t1, t2, "random", "random"), {"g1": s1, "g2": s2, "tb": tb, "fb": fb})
        judge(ctx, s1, s2, tb, fb)
    # pairs drawn on one coarse lattice: shared edges, shared vertices, overlap here and contact there are the norm
    for _ in range(ctx.scale(400, 3000)):
        lat = (rng.choice([0.0, 0.5, 12.25]), rng.choice([0.25, 0.5, 0.125]), rng.choice([0.0, 1000.0, 20480.0]), rng.choice([250.0, 500.0, 1024.0]))
        s1, s2 = lattice_geom(rng, *lat), lattice_geom(rng, *lat)
        tb, fb = rng.choice([(0.01, 100.0), (0.0, 0.0), (1.0, 5000.0)])
        ctx.case((s1["type"], s2["type"], "lattice", "areal"), {"kind": "lattice", "g1": s1, "g2": s2, "lat": list(lat), "tb": tb, "fb": fb}, nontrivial=(s1 != s2))
        judge_lattice(ctx, s1, s2, lat, tb, fb)
    # a simple polygon against a box that shares corners / edges with it (its own bounds, or a lattice box through one
    # of its vertices): the value is known exactly from rational clipping
    for _ in range(ctx.scale(2500, 12000)):
        lat = (rng.choice([0.0, 0.25, 12.25]), rng.choice([0.25, 0.5, 0.125]), rng.choice([0.0, 100.0, 20480.0]), rng.choice([100.0, 250.0, 1024.0]))
        sp = lattice_star(rng, *lat)
        ring = sp["coordinates"][0]
        b = geoms.ref_bounds(sp)
        how = rng.choice(["bounds", "bounds", "through_vertex", "lattice"])
        if how == "bounds":
            box = [b[0], b[1], b[2], b[3]]
        else:
            vx, vy = rng.choice(ring) if how == "through_vertex" else (lat[0] + rng.randint(0, LAT_N) * lat[1], lat[2] + rng.randint(0, LAT_N) * lat[3])
            ox, oy = lat[0] + rng.randint(0, LAT_N) * lat[1], lat[2] + rng.randint(0, LAT_N) * lat[3]
            box = [min(vx, ox), min(vy, oy), max(vx, ox), max(vy, oy)]
        if not (box[2] > box[0] and box[3] > box[1]):
            continue
        sb = {"type": "BoundingBox", "coordinates": box}
        ctx.case(("Polygon", "BoundingBox", "lattice", how), {"kind": "polygon_box", "g1": sp, "g2": sb, "tb": 0.01, "fb": 100.0})
        judge_polygon_box(ctx, sp, sb, 0.01, 100.0)
    FULL = False


def replay(ctx, w):
    global FULL
    install()
    FULL = True
    s = w["spec"]
    ctx.case("replay", s)
    if s.get("kind") == "polygon_box":
        judge_polygon_box(ctx, s["g1"], s["g2"], s["tb"], s["fb"])
    elif s.get("kind") == "lattice":
        judge_lattice(ctx, s["g1"], s["g2"], tuple(s["lat"]), s["tb"], s["fb"])
    else:
        judge(ctx, s["g1"], s["g2"], s["tb"], s["fb"])
    FULL = False
