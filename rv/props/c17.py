"""C17 — cropping and extending keep data on its coordinates and hit the requested size.

The input array carries unique sample values (value = original index + 1, a
distinct fill value), so every output sample identifies where it came from.
"""

from __future__ import annotations

import math
from fractions import Fraction as F

import numpy as np

from rv.core import ctx as _ctx
from rv.core import calling, instrument, scribble
from rv.core.tolerances import OPEN_END_EPS

ANCHORS = ("arrays/operations.py", "arrays/dimensions.py")
THOROUGH_SHARDS = 10
AMBIENT_TESTS = ["tests/test_array", "tests/test_arrays"]
FILL = -7.0
_installed = False


def _post_width(array, dim, width, result):
    """Ambient: crop_dim_width / extend_dim_width return exactly ``width`` samples."""
    c = _ctx.CURRENT
    if c is None:
        return True
    c.mon("dim_width.post")
    if result.sizes[dim] != width:
        cur = array.sizes[dim]
        coords = np.asarray(array.coords[dim].data)
        step = array.coords[dim].attrs.get("step")
        key = "width:exact"
        if result.sizes[dim] == width + 1 and width > cur:
            key = "width:exact:one_extra_sample"
        c.violate("width:exact", key, observed=int(result.sizes[dim]), expected=int(width),
                  spec={"kind": "width_ambient", "start": float(coords[0]), "n": int(cur), "step": step, "width": int(width)})
    return True


def install():
    global _installed
    if _installed:
        return
    instrument.ensure("soundevent.arrays.operations", "crop_dim_width", _post_width)
    instrument.ensure("soundevent.arrays.operations", "extend_dim_width", _post_width)
    _installed = True


def _mk(start, step, n, with_attr, two_d=False):
    import xarray as xr

    coords = start + np.arange(n) * step
    attrs = {"step": step} if with_attr else {}
    if n % 4 == 1:
        # range annotations left over from an earlier life of the axis (before a crop): the coordinates are what counts
        attrs.update(start=float(start - 5 * step), end=float(start + (n + 3) * step), stop=float(start + (n + 3) * step))
    if two_d:
        data = (np.arange(n, dtype=float) + 1)[:, None] * np.array([1.0, 1000.0])[None, :]
        return xr.DataArray(data, dims=["time", "channel"], coords={"time": xr.Variable("time", coords, attrs=attrs), "channel": [0, 1]})
    out = xr.DataArray(np.arange(n, dtype=float) + 1, dims=["time"], coords={"time": xr.Variable("time", coords, attrs=attrs)})
    if n % 3 == 0:
        # things the property does not mention still vary: a name, array attributes, a scalar coordinate
        out = out.rename("waveform").assign_attrs(units="V", source="rv").assign_coords(recording_id=7)
    return out


def _same_array(x, y):
    return (list(x.dims) == list(y.dims) and np.array_equal(np.asarray(x.time.data), np.asarray(y.time.data))
            and np.array_equal(np.asarray(x.data), np.asarray(y.data), equal_nan=True))


def _bounds_as_arrays_reused(ctx, fn, name, arr, a, b, lc, rc, res, spec, **extra):
    """Bounds handed over as 0-d arrays (``arr.time[k]``-like values, ``np.asarray(x)``) and used for two calls with
    different closedness: the second call means what the same call with plain floats means."""
    A = None if a is None else np.asarray(float(a))
    B = None if b is None else np.asarray(float(b))
    try:
        fn(arr, "time", start=A, stop=B, left_closed=not lc, right_closed=not rc, **extra)
        second = fn(arr, "time", start=A, stop=B, left_closed=lc, right_closed=rc, **extra)
    except Exception as e:
        ctx.violate_exc(f"{name}:raises", f"{name}:raises_with_array_bounds:{type(e).__name__}", e, spec=spec)
        return
    ctx.mon("array_bounds_reused")
    if not _same_array(second, res):
        ctx.violate("calling_convention", f"calling_convention:{name}:array_bounds_reused_across_calls", observed={"n": int(second.sizes["time"]), "bounds_now": [None if A is None else float(A), None if B is None else float(B)]},
                    expected={"n": int(res.sizes["time"]), "bounds": [a, b]}, spec=spec)


def _vals(res):
    d = np.asarray(res.data)
    return d if d.ndim == 1 else d[:, 0]


# ------------------------------------------------------------------- crop_dim
def _relabel(arr):
    """Same coordinate variable (with whatever attributes earlier calls left on it), fresh unique sample values."""
    n = arr.sizes["time"]
    if arr.ndim == 1:
        return arr.copy(data=np.arange(n, dtype=float) + 1)
    return arr.copy(data=(np.arange(n, dtype=float) + 1)[:, None] * np.array([1.0, 1000.0])[None, :])


def judge_crop(ctx, start, step, n, a, b, lc, rc, with_attr, two_d, arr=None, history=None):
    from soundevent.arrays import operations as O

    arr = _mk(start, step, n, with_attr, two_d) if arr is None else arr
    coords = np.asarray(arr.time.data)
    spec = {"kind": "crop", "start": start, "step": step, "n": n, "a": a, "b": b, "lc": lc, "rc": rc, "attr": with_attr, "two_d": two_d, "history": history}
    try:
        res = O.crop_dim(arr, "time", start=a, stop=b, left_closed=lc, right_closed=rc)
    except Exception as e:
        ctx.violate_exc("crop:raises", f"crop:raises:{type(e).__name__}", e, spec=spec)
        return
    if ctx.every(spec, 3) and history is None:
        calling.agree(ctx, "crop_dim", O.crop_dim, dict(arr=arr, dim="time", start=a, stop=b, right_closed=rc, left_closed=lc), spec, same=_same_array,
                      variants={"boolish_flags": {"left_closed": calling.boolish(ctx.rng, lc), "right_closed": calling.boolish(ctx.rng, rc)},
                                "numlike_bounds": {"start": calling.numlike(ctx.rng, a), "stop": calling.numlike(ctx.rng, b)}})
    if ctx.every(spec, 5) and history is None:
        _bounds_as_arrays_reused(ctx, O.crop_dim, "crop_dim", arr, a, b, lc, rc, res, spec)
    ctx.mon("crop.oracle")
    lo = coords[0] if a is None else a
    hi = coords[-1] if b is None else b
    lcl = True if a is None else lc
    rcl = True if b is None else rc
    must, may = set(), set()
    for i, cc in enumerate(coords):
        inside = (cc >= lo if lcl else cc > lo) and (cc <= hi if rcl else cc < hi)
        # the code's own epsilon next to an OPEN end: undecided band
        band = (not lcl and lo < cc <= lo + 2 * OPEN_END_EPS) or (not rcl and hi - 2 * OPEN_END_EPS <= cc < hi)
        if band:
            may.add(i + 1)
        elif inside:
            must.add(i + 1)
    got = [int(v) for v in _vals(res)]
    gc = np.asarray(res.time.data)
    if may:
        ctx.dc("crop:open_end_eps_band")
    if not (must <= set(got) <= (must | may)) or got != sorted(got) or len(set(got)) != len(got):
        ctx.violate("crop:kept_set", "crop:kept_set", observed=got[:8] + ["..."] + got[-3:] if len(got) > 12 else got,
                    expected={"must": sorted(must)[:6] + ["..."] + sorted(must)[-3:] if len(must) > 10 else sorted(must), "may": sorted(may)}, spec=spec)
        return
    for v, cc in zip(got, gc):
        if coords[v - 1] != cc:
            ctx.violate("crop:data_on_coordinate", "crop:data_on_coordinate", observed={"value": v, "coord": float(cc)}, expected=float(coords[v - 1]), spec=spec)
            break
    if two_d and len(got):
        d = np.asarray(res.data)
        if not np.array_equal(d[:, 1], d[:, 0] * 1000.0):
            ctx.violate("crop:other_dims", "crop:other_dims", observed="channel columns disagree", spec=spec)
    return res


# ----------------------------------------------------------------- extend_dim
def _side(last, step, bound, closed, direction, eps=OPEN_END_EPS):
    """Number of new lattice points beyond ``last`` towards ``bound``: (definite, undecided)."""
    definite = undecided = 0
    k = 1
    while k < 100000:
        p_exact = F(last) + direction * k * F(step)
        p_float = last + direction * k * step
        d = (F(bound) - p_exact) * direction  # >0: strictly inside
        if d < -F(2 * eps):
            break
        coincide = p_exact == F(bound) or p_float == bound
        if coincide:
            if closed:
                definite += 1 + undecided
                undecided = 0
            # open end: excluded, nothing further can be inside
            if not closed:
                break
        elif abs(d) <= F(2 * eps):
            undecided += 1
        elif d > 0:
            definite += 1 + undecided
            undecided = 0
        k += 1
    return definite, undecided


def judge_extend(ctx, start, step, n, a, b, lc, rc, with_attr, two_d, arr=None, history=None, eps=None):
    from soundevent.arrays import operations as O

    arr = _mk(start, step, n, with_attr, two_d) if arr is None else arr
    coords = np.asarray(arr.time.data)
    spec = {"kind": "extend", "start": start, "step": step, "n": n, "a": a, "b": b, "lc": lc, "rc": rc, "attr": with_attr, "two_d": two_d, "history": history}
    if eps is not None:
        spec["eps"] = eps
    try:
        ekw = {} if eps is None else {"eps": eps}
        res = O.extend_dim(arr, "time", start=a, stop=b, fill_value=FILL, left_closed=lc, right_closed=rc, **ekw)
    except Exception as e:
        ctx.violate_exc("extend:raises", f"extend:raises:{type(e).__name__}", e, spec=spec)
        return
    if ctx.every(spec, 3) and history is None and eps is None:
        calling.agree(ctx, "extend_dim", O.extend_dim, dict(arr=arr, dim="time", start=a, stop=b, fill_value=FILL, left_closed=lc, right_closed=rc), spec, same=_same_array,
                      variants={"boolish_flags": {"left_closed": calling.boolish(ctx.rng, lc), "right_closed": calling.boolish(ctx.rng, rc)},
                                "numlike_bounds": {"start": calling.numlike(ctx.rng, a), "stop": calling.numlike(ctx.rng, b)}})
    if ctx.every(spec, 5) and history is None and eps is None:
        _bounds_as_arrays_reused(ctx, O.extend_dim, "extend_dim", arr, a, b, lc, rc, res, spec, fill_value=FILL)
    ctx.mon("extend.oracle")
    gc = np.asarray(res.time.data)
    vals = _vals(res)
    # original samples at their original coordinates, everything else fill
    pos = {float(c): i for i, c in enumerate(gc)}
    for i, c in enumerate(coords):
        j = pos.get(float(c))
        if j is None or vals[j] != i + 1:
            ctx.violate("extend:original_kept", "extend:original_kept", observed={"coord": float(c), "found": None if j is None else float(vals[j])}, expected=i + 1, spec=spec)
            return
    orig_idx = {pos[float(c)] for c in coords}
    for j, v in enumerate(vals):
        if j not in orig_idx and v != FILL:
            ctx.violate("extend:new_is_fill", "extend:new_is_fill", observed={"coord": float(gc[j]), "value": float(v)}, expected=FILL, spec=spec)
            return
    if len(gc) > 1:
        d = np.diff(gc)
        if not np.all(d > 0) or np.abs(d - step).max() > 1e-6 * step + 1e-12:
            ctx.violate("extend:regular_axis", "extend:regular_axis", observed={"min_diff": float(d.min()), "max_diff": float(d.max())}, expected=step, spec=spec)
            return
    first = min(orig_idx)
    n_left, n_right = first, len(gc) - 1 - max(orig_idx)
    lo = coords[0] if a is None else a
    hi = coords[-1] if b is None else b
    dl, ul = _side(float(coords[0]), step, lo, lc, -1, eps if eps is not None else OPEN_END_EPS)
    dr, ur = _side(float(coords[-1]), step, hi, rc, +1, eps if eps is not None else OPEN_END_EPS)
    if ul or ur:
        ctx.dc("extend:end_within_eps_of_lattice_point")
    for name, got, d0, u0, bound, closed in (("left", n_left, dl, ul, lo, lc), ("right", n_right, dr, ur, hi, rc)):
        if not (d0 <= got <= d0 + u0):
            key = "extend:lattice_points"
            edge = (coords[0] - (got) * step) if name == "left" else (coords[-1] + got * step)
            if got == d0 + 1 and not closed and abs(edge - bound) <= 1e-9 * max(1.0, abs(bound)):
                key = "extend:lattice_points:open_end_includes_endpoint"
            ctx.violate("extend:lattice_points", key, observed={"side": name, "new_points": int(got)}, expected={"definite": d0, "undecided": u0}, spec=spec)
            return
    return res


# -------------------------------------------------------------- width family
def judge_width(ctx, start, step, n, width, position, with_attr, fn, two_d, no_coord=False):
    from soundevent.arrays import operations as O

    arr = _mk(start, step, n, with_attr, two_d)
    if no_coord:
        # the dimension has no coordinate of its own (the arrays of the functions' docstring examples; the frame axis of
        # a feature matrix): it is implicitly indexed 0, 1, 2, ...
        arr = arr.drop_vars("time")
        start, step = 0.0, 1.0
    coords = np.asarray(arr.time.data)
    spec = {"kind": "width", "start": start, "step": step, "n": n, "width": width, "position": position, "attr": with_attr, "fn": fn, "two_d": two_d, "no_coord": no_coord}
    f = getattr(O, fn)
    kw = {"position": position}
    if fn != "crop_dim_width":
        kw["fill_value"] = FILL
    try:
        res = f(arr, "time", width, **kw)
    except ValueError as e:
        if width < 1:
            ctx.mon("width.rejection")
            return
        ctx.violate_exc("width:raises", "width:raises:ValueError", e, spec=spec)
        return
    except Exception as e:
        ctx.violate_exc("width:raises", f"width:raises:{type(e).__name__}", e, spec=spec)
        return
    if width >= 1 and ctx.every(spec, 4):
        calling.agree(ctx, fn, instrument.original(f), dict(array=arr, dim="time", width=width, **kw), spec, same=_same_array)
    ctx.mon("width.oracle")
    if width < 1:
        ctx.violate("width:rejects_lt_1", "width:rejects_lt_1", observed=int(res.sizes["time"]), expected="ValueError", spec=spec)
        return
    got_n = int(res.sizes["time"])
    if got_n != width:
        key = "width:exact"
        if got_n == width + 1 and width > n:
            key = "width:exact:one_extra_sample"
        ctx.violate("width:exact", key, observed=got_n, expected=width, spec=spec)
        return
    vals = _vals(res)
    gc = np.asarray(res.time.data)
    if len(gc) > 1:
        d = np.diff(gc)
        if not np.all(d > 0) or np.abs(d - step).max() > 1e-6 * step + 1e-12:
            ctx.violate("width:regular_axis", "width:regular_axis", observed={"min_diff": float(d.min()), "max_diff": float(d.max())}, expected=step, spec=spec)
            return
    if width <= n:
        # cropping: a contiguous block of the original
        block = [int(v) for v in vals]
        if block != list(range(block[0], block[0] + width)):
            ctx.violate("width:contiguous_block", "width:contiguous_block", observed=block[:10], spec=spec)
            return
        left, right = block[0] - 1, n - (block[0] - 1) - width
        for v, cc in zip(block, gc):
            if not no_coord and coords[v - 1] != cc:      # (a crop of a dimension without coordinate has none either)
                ctx.violate("width:data_on_coordinate", "width:data_on_coordinate", observed={"value": v, "coord": float(cc)}, expected=float(coords[v - 1]), spec=spec)
                return
    else:
        idx = [j for j, v in enumerate(vals) if v != FILL]
        if [int(vals[j]) for j in idx] != list(range(1, n + 1)) or idx != list(range(idx[0], idx[0] + n)):
            ctx.violate("width:original_block", "width:original_block", observed=[float(v) for v in vals[:12]], expected="original samples contiguous, rest fill", spec=spec)
            return
        for j, cc in zip(idx, coords):
            if gc[j] != cc:
                ctx.violate("width:data_on_coordinate", "width:data_on_coordinate", observed={"j": j, "coord": float(gc[j])}, expected=float(cc), spec=spec)
                return
        left, right = idx[0], width - n - idx[0]
    want = {"start": left == 0, "end": right == 0, "center": abs(left - right) <= 1}[position]
    if not want:
        ctx.violate("width:position", "width:position", observed={"left": left, "right": right}, expected=position, spec=spec)


STARTS = [0.0, 0.3, 10.0, -2.0]
STEPS = [1.0, 0.5, 0.1, 0.01, 1 / 3, 0.003, 1 / 44100]


def run(ctx):
    install()
    rng = ctx.rng
    from rv.props import concurrent_jobs

    concurrent_jobs.run_some(ctx, "C17")        # the same calls from a thread pool (rv/core/threads.py)
    ctx.must_monitors.append("concurrent_calls")
    ctx.rule = ("(axis start, step, length, requested range or width, position, closedness, step from attrs or estimated); "
                "non-trivial = fractional step or width != current width; distinct = distinct case spec")
    ctx.assumptions += [
        "1-D/2-D float arrays on a regular axis; requested ranges inside (crop) / containing (extend) the axis",
        "a coordinate within 2e-5 of an OPEN end (the functions' own eps=1e-5) is don't-care; a lattice point equal to a requested end as a double is decided exactly",
    ]
    ctx.must_monitors += ["crop.oracle", "extend.oracle", "width.oracle", "dim_width.post", "width.rejection", "content.oracle"]
    ctx.must_reach += [f"arrays/operations.py::{f}" for f in ("crop_dim", "extend_dim", "adjust_dim_width", "crop_dim_width", "extend_dim_width")]

    # directed witnesses (findings 11 and 16)
    ctx.case(("directed", "extend", "open_end_on_lattice"), {"kind": "extend", "start": 0.3, "step": 1.0, "n": 7, "a": None, "b": 9.3, "lc": True, "rc": False})
    judge_extend(ctx, 0.3, 1.0, 7, None, 9.3, True, False, True, False)
    ctx.case(("directed", "extend", "open_left_on_lattice"), {"kind": "extend", "start": 10.0, "step": 0.1, "n": 5, "a": 9.7, "b": None, "lc": False, "rc": False})
    judge_extend(ctx, 10.0, 0.1, 5, 9.7, None, False, False, True, False)
    for st, stp, n, w, pos in [(0.3, 0.1, 7, 10, "start"), (0.0, 1 / 3, 5, 9, "end"), (10.0, 0.003, 20, 31, "center"), (0.3, 0.01, 33, 60, "start")]:
        ctx.case(("directed", "width"), {"kind": "width", "start": st, "step": stp, "n": n, "width": w, "position": pos})
        judge_width(ctx, st, stp, n, w, pos, True, "adjust_dim_width", False)

    # widths: exhaustive over a small grid
    lens = [1, 2, 3, 5, 8, 20, 33, 60] if ctx.thorough else [1, 2, 5, 20, 33]
    widths = list(range(0, 121)) if ctx.thorough else [0, 1, 2, 3, 4, 5, 6, 7, 10, 19, 20, 21, 32, 33, 34, 40, 59, 60, 61, 100, 120]
    ctx.exhaustive_subspaces.append(f"adjust_dim_width: starts {STARTS} x steps x lengths {lens} x widths {widths[0]}..{widths[-1]} x 3 positions x attr/estimated")
    k = 0
    for st in STARTS:
        for stp in STEPS:
            for n in lens:
                for w in widths:
                    for pos in ("start", "center", "end"):
                        k += 1
                        if k % ctx.nshards != ctx.shard:
                            continue
                        attr = (k % 3 != 0) or n < 2
                        fn = "adjust_dim_width"
                        if k % 5 == 0 and w >= 1 and w != n:
                            fn = "crop_dim_width" if w < n else "extend_dim_width"
                        ctx.case(("width", pos, "crop" if w < n else "same" if w == n else "extend", "attr" if attr else "estimated", "frac" if stp != int(stp) else "int"),
                                 {"kind": "width", "start": st, "step": stp, "n": n, "width": w, "position": pos, "attr": attr, "fn": fn},
                                 nontrivial=(stp != int(stp)) or w != n)
                        judge_width(ctx, st, stp, n, w, pos, attr, fn, two_d=(k % 7 == 0))
    for n in [x for x in lens if x >= 2]:       # (one sample without a step attribute: no step to estimate, as for axes with coordinates)
        for w in widths:
            for pos in ("start", "center", "end"):
                for fn in ("adjust_dim_width",) + (("crop_dim_width",) if 1 <= w < n else ("extend_dim_width",) if w > n else ()):
                    k += 1
                    if k % ctx.nshards != ctx.shard:
                        continue
                    ctx.case(("width", pos, "crop" if w < n else "same" if w == n else "extend", "no_coordinate", fn),
                             {"kind": "width", "start": 0.0, "step": 1.0, "n": n, "width": w, "position": pos, "attr": False, "fn": fn, "no_coord": True, "two_d": k % 2 == 0}, nontrivial=w != n)
                    judge_width(ctx, 0.0, 1.0, n, w, pos, False, fn, two_d=(k % 2 == 0), no_coord=True)

    # crop / extend
    for _ in range(ctx.scale(2500, 12000)):
        st = rng.choice(STARTS); stp = rng.choice(STEPS); n = rng.choice([1, 2, 3, 5, 10, 33, 60])
        attr = rng.random() < 0.6 or n < 2
        two_d = rng.random() < 0.2
        lc, rc = rng.random() < 0.5, rng.random() < 0.5
        coords = st + np.arange(n) * stp
        if rng.random() < 0.5:
            # crop: range inside the axis
            def pick():
                i = rng.randrange(n)
                how = rng.choice(["on", "mid", "third"])
                v = float(coords[i])
                if how == "mid" and i + 1 < n:
                    v = float((coords[i] + coords[i + 1]) / 2)
                elif how == "third" and i + 1 < n:
                    v = float(coords[i] + (coords[i + 1] - coords[i]) / 3)
                return v
            a, b = sorted((pick(), pick()))
            if rng.random() < 0.15:
                a = None
            if rng.random() < 0.15:
                b = None
            ctx.case(("crop", "lc" if lc else "lo", "rc" if rc else "ro", "attr" if attr else "estimated", "none" if a is None or b is None else "both"),
                     {"kind": "crop", "start": st, "step": stp, "n": n, "a": a, "b": b, "lc": lc, "rc": rc, "attr": attr, "two_d": two_d},
                     nontrivial=stp != int(stp))
            judge_crop(ctx, st, stp, n, a, b, lc, rc, attr, two_d)
        else:
            kl, kr = rng.choice([0, 0, 1, 2, 3, 7, 25]), rng.choice([0, 0, 1, 2, 3, 7, 25])
            how_l, how_r = rng.choice(["on", "mid", "third"]), rng.choice(["on", "mid", "third"])
            off = {"on": 0.0, "mid": 0.5, "third": 1 / 3}
            a = float(coords[0] - (kl + off[how_l]) * stp) if kl or how_l != "on" else None
            b = float(coords[-1] + (kr + off[how_r]) * stp) if kr or how_r != "on" else None
            if a is not None and a < 0:
                a = None
            ctx.case(("extend", "lc" if lc else "lo", "rc" if rc else "ro", "attr" if attr else "estimated", how_l if a is not None else "none", how_r if b is not None else "none"),
                     {"kind": "extend", "start": st, "step": stp, "n": n, "a": a, "b": b, "lc": lc, "rc": rc, "attr": attr, "two_d": two_d},
                     nontrivial=stp != int(stp))
            judge_extend(ctx, st, stp, n, a, b, lc, rc, attr, two_d)
            if rng.random() < 0.25:
                # the tolerance at the ends is the caller's (`eps`): a fine axis needs a fine one
                eps = rng.choice([1e-8, 1e-9, 1e-7])
                fine = rng.choice([1 / 192000, 1 / 384000, stp])
                coords2 = st + np.arange(n) * fine
                a2 = float(coords2[0] - kl * fine) if kl else None
                b2 = float(coords2[-1] + (kr + off[how_r]) * fine) if kr or how_r != "on" else None
                if a2 is not None and a2 < 0:
                    a2 = None
                ctx.case(("extend", "custom_eps", "lc" if lc else "lo", "rc" if rc else "ro"), {"kind": "extend", "start": st, "step": fine, "n": n, "a": a2, "b": b2, "lc": lc, "rc": rc, "attr": attr, "two_d": False, "eps": eps})
                judge_extend(ctx, st, fine, n, a2, b2, lc, rc, attr, False, eps=eps)
    run_chains(ctx)
    run_contents(ctx)

# ----------------------------------------------------- data content is the caller's business
CONTENTS = ["nan", "inf", "equals_fill", "zeros", "nan_edges", "all_nan", "int16", "bool", "int16"]
FILLS = [FILL, 0.0, float("nan"), 1e30, 0.5, -1.5]


def _same(a, b):
    return (a == b) or (a != a and b != b)


def _content(arr, content):
    """Give some ORIGINAL samples values that a fill / missing-data marker could be confused with."""
    if content in ("int16", "bool"):
        # integer / boolean samples (raw PCM, masks): a fill value such data cannot hold is still the fill value
        d = np.array(arr.data)
        d = (d.astype(np.int64) % 30000).astype(np.int16) if content == "int16" else (d.astype(np.int64) % 2 == 0)
        return arr.copy(data=d)
    d = np.array(arr.data, dtype=float)
    n = d.shape[0]
    ks = sorted({0, n // 2, n - 1}) if content != "nan_edges" else sorted({0, n - 1})
    if content == "all_nan":
        d[...] = np.nan
    elif content == "zeros":
        d[...] = 0.0
    else:
        val = {"nan": np.nan, "nan_edges": np.nan, "inf": np.inf, "equals_fill": None}[content]
        for k in ks:
            d[k] = val if val is not None else FILL
    return arr.copy(data=d)


def judge_content(ctx, op, start, step, n, content, fill, k_left, k_right, with_attr, two_d):
    """Samples are located by coordinate, so their values may be anything (NaN, inf, the fill value itself)."""
    from soundevent.arrays import operations as O

    def run_op():
        arr = _content(_mk(start, step, n, with_attr, two_d), content)
        coords = np.asarray(arr.time.data)
        mid_new = set()
        if op == "extend_dim":
            res = O.extend_dim(arr, "time", start=float(coords[0] - k_left * step) if k_left else None, stop=float(coords[-1] + (k_right + 0.5) * step), fill_value=fill)
        elif op == "extend_twice":
            mid = O.extend_dim(arr, "time", stop=float(coords[-1] + (k_right + 0.5) * step), fill_value=float("nan"))
            res = O.extend_dim(mid, "time", stop=float(coords[-1] + (2 * k_right + 1.5) * step), fill_value=fill)
            if not (np.asarray(mid.time.data)[: len(coords)] == coords).all():
                return arr, None, mid_new
            mid_new = {float(c) for c in np.asarray(mid.time.data)[len(coords):]}
        elif op == "crop_dim":
            res = O.crop_dim(arr, "time", start=float(coords[min(k_left, n - 1)]), stop=None)
        else:
            width = n + k_left + k_right if op != "crop_dim_width" else max(1, n - max(1, k_left))
            kw = {} if op == "crop_dim_width" else {"fill_value": fill}
            res = getattr(O, op)(arr, "time", width, **kw)
        return arr, res, mid_new

    spec = {"kind": "content", "op": op, "start": start, "step": step, "n": n, "content": content, "fill": fill if fill == fill else "nan",
            "k_left": k_left, "k_right": k_right, "attr": with_attr, "two_d": two_d}
    try:
        arr, res, mid_new = run_op()
    except Exception as e:
        ctx.violate_exc("content:raises", f"content:raises:{op}:{type(e).__name__}", e, spec=spec)
        return
    if res is None:
        return
    coords = np.array(arr.time.data, copy=True)
    orig = np.array(arr.data, copy=True)      # (crop results are views of the input: editing them edits the input)
    if ctx.every(spec, 3):
        # the caller owns the result: it overwrites it in place; the same operation on a fresh, equal array is unaffected
        snap = (np.array(res.time.data, copy=True), np.array(res.data, copy=True), np.array(arr.data, copy=True))
        try:
            if scribble.scribble(res):
                ctx.mon("repeat_after_result_edit")
                if not np.array_equal(np.asarray(arr.data), snap[2], equal_nan=True):
                    ctx.note("editing_the_result_changed_the_input_array")
                _, res, mid_new = run_op()
                if res is None or not (np.array_equal(np.asarray(res.time.data), snap[0]) and np.array_equal(np.asarray(res.data), snap[1], equal_nan=True)):
                    ctx.violate("content:repeat_differs", f"content:repeat_differs_after_result_edit:{op}", observed="second result differs from the first", expected="equal results for equal inputs", spec=spec)
                    return
        except Exception as e:
            ctx.violate_exc("content:raises", f"content:raises_on_repeat:{op}:{type(e).__name__}", e, spec=spec)
            return
    ctx.mon("content.oracle")
    gc = np.asarray(res.time.data)
    got = np.asarray(res.data)
    pos = {float(c): j for j, c in enumerate(gc)}
    kept = 0
    for i, c in enumerate(coords):
        j = pos.get(float(c))
        if j is None:
            if op.startswith("extend") or (op == "adjust_dim_width" and k_left + k_right >= 0):
                ctx.violate("content:original_kept", f"content:original_kept:{op}", observed={"coord": float(c), "found": None}, expected="present", spec=spec)
                return
            continue
        kept += 1
        a, b = np.atleast_1d(got[j]), np.atleast_1d(orig[i])
        if not all(_same(float(x), float(y)) for x, y in zip(a, b)):
            ctx.violate("content:original_kept", f"content:original_kept:{op}", observed={"coord": float(c), "value": [float(x) for x in a]}, expected=[float(y) for y in b], spec=spec)
            return
    olds = {float(c) for c in coords}
    for j, c in enumerate(gc):
        if float(c) in olds:
            continue
        want = fill
        if op == "extend_twice" and float(c) in mid_new:
            want = float("nan")          # created by the first call with its own fill value: an original sample of the second
        if not all(_same(float(x), want) for x in np.atleast_1d(got[j])):
            ctx.violate("content:new_is_fill", f"content:new_is_fill:{op}", observed={"coord": float(c), "value": [float(x) for x in np.atleast_1d(got[j])]}, expected=want if want == want else "nan", spec=spec)
            return
    if kept == 0:
        ctx.note("content:no_original_sample_kept")


def run_contents(ctx):
    rng = ctx.rng
    for _ in range(ctx.scale(600, 2500)):
        op = rng.choice(["extend_dim", "extend_dim", "extend_twice", "extend_dim_width", "adjust_dim_width", "crop_dim", "crop_dim_width"])
        st = rng.choice([0.0, 0.5, 10.0]); stp = rng.choice([1.0, 0.5, 0.1, 0.25]); n = rng.choice([3, 5, 10, 33])
        content = rng.choice(CONTENTS); fill = rng.choice(FILLS)
        kl, kr = rng.choice([0, 1, 2, 5]), rng.choice([1, 2, 3, 7])
        attr = rng.random() < 0.7
        two_d = rng.random() < 0.2
        ctx.case(("content", op, content, "fill_nan" if fill != fill else f"fill{fill}"), {"kind": "content", "op": op, "start": st, "step": stp, "n": n, "content": content,
                 "fill": fill if fill == fill else "nan", "k_left": kl, "k_right": kr, "attr": attr, "two_d": two_d})
        judge_content(ctx, op, st, stp, n, content, fill, kl, kr, attr, two_d)


def run_chains(ctx):
    """Crop / extend applied to arrays that already went through an earlier crop / extend (whatever that call
    left on the coordinate variable travels along); the second and third steps are judged on fresh labels."""
    rng = ctx.rng
    for _ in range(ctx.scale(250, 1200)):
        st = rng.choice([0.0, 0.5, 10.0]); stp = rng.choice([1.0, 0.5, 0.1]); n = rng.choice([5, 10, 20])
        attr = rng.random() < 0.7
        arr = _mk(st, stp, n, attr, False)
        hist = []
        cur = arr
        for stepno in range(rng.choice([2, 3, 4])):
            coords = np.asarray(cur.time.data)
            if len(coords) < 3:
                break
            cst = float(coords[0])
            if hist and not attr and len(coords) >= 6 and rng.random() < 0.35 and not hist[-1].startswith("thin"):
                # between two library calls the caller thins the array with plain xarray (every k-th sample): the axis
                # never had a declared step, so the next call works with the spacing the coordinates have NOW
                kth = rng.choice([2, 3])
                cur = cur.isel(time=slice(None, None, kth))
                stp = stp * kth
                hist.append(f"thin{kth}")
                ctx.mon("chain.thinned_between_calls")
                continue
            op = rng.choice(["extend", "extend", "crop"])
            lc, rc = rng.random() < 0.7, rng.random() < 0.4
            if op == "extend":
                kl, kr = rng.choice([0, 0, 1, 2]), rng.choice([0, 1, 2, 3])
                off = rng.choice([0.0, 0.2, 0.5])
                a = float(coords[0] - (kl + off) * stp) if kl or off else None
                b = float(coords[-1] + (kr + off) * stp) if kr or off else None
                if a is not None and a < -5:
                    a = None
                ctx.case(("chain", stepno, "extend", "+".join(hist) or "fresh"), {"kind": "chain", "start": st, "step": stp, "n": n, "history": list(hist), "op": "extend", "a": a, "b": b, "lc": lc, "rc": rc},
                         nontrivial=bool(hist))
                res = judge_extend(ctx, cst, stp, len(coords), a, b, lc, rc, attr, False, arr=_relabel(cur), history=list(hist))
            else:
                i, j = sorted(rng.sample(range(len(coords)), 2))
                a, b = float(coords[i]), float(coords[j])
                if rng.random() < 0.3:
                    a = None
                if rng.random() < 0.3:
                    b = None
                ctx.case(("chain", stepno, "crop", "+".join(hist) or "fresh"), {"kind": "chain", "start": st, "step": stp, "n": n, "history": list(hist), "op": "crop", "a": a, "b": b, "lc": lc, "rc": rc},
                         nontrivial=bool(hist))
                res = judge_crop(ctx, cst, stp, len(coords), a, b, lc, rc, attr, False, arr=_relabel(cur), history=list(hist))
            if res is None:
                break
            hist.append(op)
            cur = res


def replay(ctx, w):
    install()
    s = w["spec"]
    ctx.case("replay", s)
    k = s["kind"]
    if k == "crop":
        judge_crop(ctx, s["start"], s["step"], s["n"], s["a"], s["b"], s["lc"], s["rc"], s.get("attr", True), s.get("two_d", False))
    elif k == "extend":
        judge_extend(ctx, s["start"], s["step"], s["n"], s["a"], s["b"], s["lc"], s["rc"], s.get("attr", True), s.get("two_d", False), eps=s.get("eps"))
    elif k == "content":
        judge_content(ctx, s["op"], s["start"], s["step"], s["n"], s["content"], float("nan") if s["fill"] == "nan" else s["fill"], s["k_left"], s["k_right"], s["attr"], s["two_d"])
    elif k == "width":
        judge_width(ctx, s["start"], s["step"], s["n"], s["width"], s["position"], s.get("attr", True), s.get("fn", "adjust_dim_width"), s.get("two_d", False), no_coord=s.get("no_coord", False))
