"""C08 — detection evaluation accounts for every sound event and only credits overlaps."""

from __future__ import annotations

import math
import warnings

import numpy as np

from rv.core import instrument
from rv.gen import geoms
from rv.props import c04, c07, c09
from rv.props import eval_common as E

ANCHORS = ("evaluation/tasks/sound_event_detection.py", "evaluation/tasks/common.py", "evaluation/match.py", "evaluation/metrics.py", "data/clip_evaluations.py")
THOROUGH_SHARDS = 12


def _affinity(g1, g2):
    """Reference affinity of a pair (default buffers).  Where the statement of C06 gives a closed form -- two boxes: area
    IoU; a time-only geometry with an interval / box / stamp: IoU of the (buffered) time extents -- it is computed
    independently of the library; otherwise by a fresh call of the library's own function."""
    from soundevent.evaluation import affinity as A

    from rv.props import c06

    s1, s2 = geoms.to_spec(g1), geoms.to_spec(g2)
    closed = ("TimeStamp", "TimeInterval", "BoundingBox")
    if s1["type"] == "BoundingBox" and s2["type"] == "BoundingBox":
        return c06._box_iou(s1["coordinates"], s2["coordinates"])
    if s1["type"] in closed and s2["type"] in closed and (s1["type"] in geoms.TIME_ONLY or s2["type"] in geoms.TIME_ONLY):
        def ext(s):
            c = s["coordinates"]
            if s["type"] == "TimeStamp":
                return (max(c - 0.01, 0), c + 0.01)
            return (c[0], c[1]) if s["type"] == "TimeInterval" else (c[0], c[2])
        return c06._iou_1d(ext(s1), ext(s2))
    return instrument.original(A.compute_affinity)(g1, g2)


def judge_after_list_edit(ctx, spec, pair=None):
    """The caller evaluates, then corrects one clip annotation by REPLACING it in the very list it passed (same list
    object, same length), and evaluates again: the result follows the list's current content."""
    from soundevent.evaluation.tasks import sound_event_detection

    cps, cas, tags, idx = E.build(spec)
    try:
        with warnings.catch_warnings():
            warnings.simplefilter("ignore")
            sound_event_detection(cps, cas, tags)
    except Exception:
        return
    if pair is None:
        r = E.corrected_annotation(spec, ctx.rng)
        if r is None:
            return
        spec2, ci = r
        spec2["_after_list_edit_of"] = {"spec": spec, "ci": ci}          # (for replay: the call history is part of the case)
    else:
        spec2, ci = pair
    idx2 = E.replace_annotation_in_list(cas, spec2, ci)
    if idx2 is None:
        return
    ctx.mon("after_list_edited_in_place")
    n0 = len(ctx.violations)
    judge(ctx, spec2, built=(cps, cas, tags, idx2))
    for v in ctx.violations[n0:]:
        v["key"] = v["key"] + ":after_input_list_edited_in_place"


def judge(ctx, spec, built=None):
    from soundevent.evaluation.tasks import sound_event_detection

    vocab = spec["vocab"]
    n_events = sum(len(c["events"]) for c in spec["clips"] if c["only"] == "both")
    if n_events == 0:
        ctx.ood("no_evaluated_sound_event")
        return
    cps, cas, tags, idx = built or E.build(spec)
    try:
        with warnings.catch_warnings():
            warnings.simplefilter("ignore")
            ev = sound_event_detection(cps, cas, tags)
    except Exception as e:
        key = f"raises:{type(e).__name__}"
        geomless = any(e2.get("geom") is None for c in spec["clips"] for e2 in c["events"])
        if len(vocab) == 1:
            key = "raises:single_tag_vocabulary"
        elif c09.no_labelled_item(spec) and "0 sample" in str(e):
            key = "raises:sound_event_detection:no_labelled_item"
        elif geomless and ("matched" in str(e) or isinstance(e, IndexError)):
            key = "raises:geometryless_event"
        ctx.violate_exc("raises", key, e, spec=spec)
        return
    ctx.mon("detection_results")
    c04.check_invariants(ctx, ev, "task:sound_event_detection")
    if ctx.evaluations % 4 == 0:
        try:
            with warnings.catch_warnings():
                warnings.simplefilter("ignore")
                ev2 = sound_event_detection(cps, cas, tags)
            ctx.mon("repeat_call")
            d = c09._cmp(c09.summarise(ev), c09.summarise(ev2))
            if d:
                ctx.violate("repeat_call_differs", "repeat_call_differs", observed={"differs_at": d}, expected="second evaluation of the same objects gives the same result", spec=spec)
        except Exception as e:
            ctx.violate_exc("raises", f"raises_on_second_call:{type(e).__name__}", e, spec=spec)
    evaluated = {str(E._u("clip", ci)): ci for ci, c in enumerate(spec["clips"]) if c["only"] == "both"}
    got = [str(ce.annotations.clip.uuid) for ce in ev.clip_evaluations]
    if sorted(got) != sorted(evaluated):
        ctx.violate("evaluates_clips_in_both", "evaluates_clips_in_both", observed=sorted(got), expected=sorted(evaluated), spec=spec)
        return
    clip_scores = []
    for ce in ev.clip_evaluations:
        ci = evaluated[str(ce.annotations.clip.uuid)]
        c = spec["clips"][ci]
        ann_ids = sorted(str(E._u("sea", ci, ei)) for ei, e in enumerate(c["events"]) if e["kind"] == "ann")
        pred_ids = sorted(str(E._u("sepred", ci, ei)) for ei, e in enumerate(c["events"]) if e["kind"] == "pred")
        mt = sorted(str(m.target.uuid) for m in ce.matches if m.target is not None)
        ms = sorted(str(m.source.uuid) for m in ce.matches if m.source is not None)
        ctx.mon("accounting")
        if mt != ann_ids or ms != pred_ids:
            ctx.violate("every_event_in_exactly_one_match", "every_event_in_exactly_one_match", observed={"targets": len(mt), "sources": len(ms)},
                        expected={"annotated": len(ann_ids), "predicted": len(pred_ids)}, spec=spec)
            continue
        for m in ce.matches:
            if m.source is not None and m.target is not None:
                ea = c["events"][idx["ann"][str(m.target.uuid)][1]]
                ep = c["events"][idx["pred"][str(m.source.uuid)][1]]
                ctx.mon("two_sided_matches")
                if ea.get("geom") is None or ep.get("geom") is None:
                    ctx.violate("paired_only_if_overlap", "paired_without_geometry", observed="paired a geometry-less event", spec=spec)
                    continue
                want = _affinity(geoms.build(ep["geom"]), geoms.build(ea["geom"]))
                if not want > 0:
                    ctx.violate("paired_only_if_overlap", "paired_without_overlap", observed={"affinity": m.affinity, "real": want}, expected="geometries overlap", spec=spec)
                if abs(m.affinity - want) > 1e-9:
                    ctx.violate("match_affinity", "match_affinity", observed=m.affinity, expected=want, spec=spec)
                y = E.true_class(vocab, ea["ann_tags"])
                s = E.score_vector(vocab, ep["pred_tags"])
                ws = E.class_probability(y, s)
                if m.score is None or abs(m.score - ws) > 1e-6:
                    ctx.violate("match_score", "match_score", observed=m.score, expected=ws, spec=spec)
            else:
                ctx.mon("one_sided_matches")
                if m.affinity != 0 or m.score not in (0, 0.0):
                    ctx.violate("unpaired_zero", "unpaired_zero", observed=[m.affinity, m.score], expected=[0, 0], spec=spec)
        if ce.matches:
            want = float(np.mean([m.score for m in ce.matches]))
            ctx.mon("clip_score")
            if ce.score is None or abs(ce.score - want) > 1e-9:
                ctx.violate("clip_score_is_mean", "clip_score_is_mean", observed=ce.score, expected=want, spec=spec)
        clip_scores.append(ce.score)
    vals = [s for s in clip_scores if s is not None]
    if vals:
        ctx.mon("overall_score")
        want = float(np.mean(vals))
        if ev.score is None or abs(ev.score - want) > 1e-9:
            ctx.violate("overall_score_is_mean", "overall_score_is_mean", observed=ev.score, expected=want, spec=spec)


def _directed(rng):
    box = lambda a, b, f0=1000.0, f1=3000.0: {"type": "BoundingBox", "coordinates": [a, f0, b, f1]}
    V = [["species", "a"], ["species", "b"], ["call_type", "a"]]
    ann = lambda g, tags: {"kind": "ann", "geom": g, "ann_tags": tags}
    pred = lambda g, ptags: {"kind": "pred", "geom": g, "pred_tags": ptags, "pred_score": 0.5}
    clip = lambda ev, only="both": {"only": only, "t0": 0.0, "events": ev, "ann_tags": [], "pred_tags": []}
    cases = {
        "far_apart": [clip([ann(box(0.0, 1.0), [V[0]]), pred(box(5.0, 6.0), [[*V[0], 0.75]])])],
        "iou_third": [clip([ann(box(0.0, 2.0), [V[1]]), pred(box(1.0, 3.0), [[*V[1], 0.5], [*V[0], 0.25]])])],
        "geometryless": [clip([ann(None, [V[0]]), ann(box(0.0, 1.0), [V[1]]), pred(box(0.0, 1.0), [[*V[1], 1.0]]), pred(None, [[*V[0], 0.5]]), ann(box(4.0, 5.0), [V[2]])])],
        "only_pred_clip": [clip([pred(box(0.0, 1.0), [[*V[0], 0.5]])], "pred"), clip([ann(box(0.0, 1.0), [V[0]]), pred(box(0.0, 1.0), [[*V[0], 0.5]])])],
        "unlabelled_annotation": [clip([ann(box(0.0, 1.0), []), pred(box(0.0, 1.0), [[*V[0], 0.25], [*V[1], 0.25]]), ann(box(3.0, 4.0), [V[0]])])],
        "empty_clip_and_full": [clip([]), clip([ann(box(0.0, 1.0), [V[0]]), pred(box(0.5, 1.5), [[*V[0], 1.0]])])],
    }
    for name, clips in cases.items():
        yield name, {"task": "sound_event_detection", "vocab": V, "clips": clips}
    yield "vocab1", {"task": "sound_event_detection", "vocab": V[:1], "clips": cases["iou_third"]}
    yield "only_false_positives", {"task": "sound_event_detection", "vocab": V, "clips": [clip([pred(box(0.0, 1.0), [[*V[0], 0.5]])])]}


def run(ctx):
    c07.install()  # ambient: every match_geometries call made by the task is judged by the C07 monitor
    rng = ctx.rng
    from rv.props import concurrent_jobs

    concurrent_jobs.run_some(ctx, "C08", quick=3, thorough=12)        # the same calls from a thread pool (rv/core/threads.py)
    ctx.must_monitors.append("concurrent_calls")
    ctx.rule = ("(vocabulary, clips with annotated / predicted sound events placed overlapping, shifted, disjoint, far or without geometry) as a JSON spec; "
                "non-trivial = some evaluated clip has events on both sides; distinct = distinct spec")
    ctx.assumptions += ["vocabularies of >= 2 tags (single-tag vocabulary is a directed case / open finding); at least one evaluated sound event overall",
                        "predicted vocabulary scores of one sound event sum to <= 1 (dyadic, exact in float32)",
                        "affinity compared with a re-invocation of compute_affinity (default buffers) at 1e-9; scores at 1e-6"]
    ctx.must_monitors += ["detection_results", "accounting", "two_sided_matches", "one_sided_matches", "clip_score", "overall_score", "match_geometries.stream"]
    ctx.must_reach += ["evaluation/tasks/sound_event_detection.py::sound_event_detection", "?evaluation/tasks/sound_event_detection.py::evaluate_clip",
                       "?evaluation/tasks/common.py::iterate_over_valid_clips"]
    for name, spec in _directed(rng):
        ctx.case(("directed", name), spec)
        judge(ctx, spec)
    for _ in range(ctx.scale(500, 1500)):
        spec = E.random_case(rng, "sound_event_detection", n_clips=rng.choice([1, 1, 2, 3, 4]))
        both = any(c["only"] == "both" and any(e["kind"] == "ann" for e in c["events"]) and any(e["kind"] == "pred" for e in c["events"]) for c in spec["clips"])
        geomless = any(e.get("geom") is None for c in spec["clips"] for e in c["events"])
        ctx.case(("random", f"vocab{len(spec['vocab'])}", f"clips{len(spec['clips'])}", "geomless" if geomless else "allgeom", "both" if both else "onesided"), spec, nontrivial=both)
        judge(ctx, spec)
        if ctx.every(spec, 4):
            judge_after_list_edit(ctx, spec)


def replay(ctx, w):
    c07.install()
    s = w["spec"]
    ctx.case("replay", s)
    if "_after_list_edit_of" in s:
        h = s["_after_list_edit_of"]
        judge_after_list_edit(ctx, h["spec"], pair=(s, h["ci"]))
        return
    judge(ctx, s)
