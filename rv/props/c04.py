"""C04 — relational schema invariants cannot be bypassed at construction."""

from __future__ import annotations

import json
import math
import os
import uuid
from pathlib import Path

from rv.core.walk import walk
from rv.gen import graphs
from rv.props import aoef_common as AC

ANCHORS = ("data/clip_evaluations.py", "data/matches.py", "data/annotation_projects.py", "data/clips.py", "data/predicted_tags.py",
           "data/sound_event_predictions.py", "data/sequence_predictions.py")
THOROUGH_SHARDS = 8
PATHS = ("constructor", "dict", "json")


def _jd(o):
    import datetime

    if isinstance(o, (datetime.datetime, datetime.date, datetime.time)):
        return o.isoformat()
    return str(o)


# ------------------------------------------------------- invariant walker
def in_unit(v):
    return v is None or (isinstance(v, (int, float)) and not isinstance(v, bool) and not math.isnan(v) and 0 <= v <= 1)


def check_invariants(ctx, root, where):
    """Ambient invariant walker: every instance of the constrained classes reachable from an API
    result satisfies the relational invariants."""
    for path, inst in walk(root):
        n = type(inst).__name__
        spec = {"kind": "instance", "where": where, "class": n, "path": path}
        if n == "ClipEvaluation":
            ctx.mon("invariant_walker")
            a = [x.uuid for x in inst.annotations.sound_events]
            p = [x.uuid for x in inst.predictions.sound_events]
            mt = [m.target.uuid for m in inst.matches if m.target is not None]
            ms = [m.source.uuid for m in inst.matches if m.source is not None]
            if inst.annotations.clip.uuid != inst.predictions.clip.uuid:
                ctx.violate("instance:clip_evaluation_same_clip", "instance:clip_evaluation_same_clip", spec=spec)
            if sorted(map(str, mt)) != sorted(map(str, set(a))) or sorted(map(str, ms)) != sorted(map(str, set(p))):
                ctx.violate("instance:clip_evaluation_matches_cover_once", "instance:clip_evaluation_matches_cover_once",
                            observed={"targets": len(mt), "sources": len(ms)}, expected={"annotated": len(set(a)), "predicted": len(set(p))}, spec=spec)
            if not in_unit(inst.score):
                ctx.violate("instance:score_range", "instance:score_range:ClipEvaluation", observed=inst.score, spec=spec)
        elif n == "Match":
            ctx.mon("invariant_walker")
            if inst.source is None and inst.target is None:
                ctx.violate("instance:match_has_side", "instance:match_has_side", spec=spec)
            if not in_unit(inst.affinity) or inst.affinity is None or not in_unit(inst.score):
                ctx.violate("instance:score_range", "instance:score_range:Match", observed=[inst.affinity, inst.score], spec=spec)
        elif n == "AnnotationProject":
            ctx.mon("invariant_walker")
            ids = {t.clip.uuid for t in inst.tasks}
            if any(ca.clip.uuid not in ids for ca in inst.clip_annotations):
                ctx.violate("instance:project_annotations_have_tasks", "instance:project_annotations_have_tasks", spec=spec)
        elif n == "Clip":
            ctx.mon("invariant_walker")
            if inst.start_time > inst.end_time:
                ctx.violate("instance:clip_start_le_end", "instance:clip_start_le_end", observed=[inst.start_time, inst.end_time], spec=spec)
        elif n in ("PredictedTag", "SoundEventPrediction", "SequencePrediction"):
            ctx.mon("invariant_walker")
            if not in_unit(inst.score) or inst.score is None:
                ctx.violate("instance:score_range", f"instance:score_range:{n}", observed=inst.score, spec=spec)


# ------------------------------------------------------------ attempts
def _attempt(ctx, cls_name, path, build, spec, want):
    """build(path) -> object or raises. Judge accept <=> want."""
    from pydantic import ValidationError

    ctx.mon(f"attempt.{path}")
    try:
        obj = build(path)
    except ValidationError:
        if want:
            ctx.violate("rejects_valid", f"rejects_valid:{cls_name}:{path}", observed="ValidationError", expected="accepted", spec=dict(spec, path=path))
        return "rejected"
    except Exception as e:
        import traceback as _tb

        last = _tb.extract_tb(e.__traceback__)[-1].filename
        if "/rv/" in last and "/site-packages/" not in last:
            raise  # a bug in the harness itself is never a verdict
        ctx.violate_exc("wrong_exception", f"wrong_exception:{cls_name}:{path}:{type(e).__name__}", e, spec=dict(spec, path=path))
        return "error"
    if not want:
        ctx.violate("accepts_invalid", f"accepts_invalid:{cls_name}:{path}", observed="accepted", expected="ValidationError", spec=dict(spec, path=path))
        return "accepted"
    check_invariants(ctx, obj, f"constructed:{path}")
    return "accepted"


def _three_paths(ctx, cls_name, cls, py_kwargs, spec, want, json_ok=True):
    """py_kwargs: callable returning kwargs with *objects*; dict / json derive from it."""
    outcomes = {}

    def build(path):
        kw = py_kwargs()
        if path == "constructor":
            return cls(**kw)
        if path == "dict":
            return cls.model_validate({k: _dump(v) for k, v in kw.items()})
        return cls.model_validate_json(json.dumps({k: _dump(v, mode="json") for k, v in kw.items()}, default=_jd))

    for p in PATHS:
        if p == "json" and not json_ok:
            continue
        try:
            outcomes[p] = _attempt(ctx, cls_name, p, build, spec, want)
        except ValueError as e:
            # could not even build the parts (e.g. a Match with no side): that is a rejection
            outcomes[p] = "rejected"
            if want:
                ctx.violate_exc("rejects_valid", f"rejects_valid:{cls_name}:{p}:parts", e, spec=dict(spec, path=p))
    ctx.mon("paths_agree")
    if len(set(outcomes.values())) > 1:
        ctx.violate("paths_agree", f"paths_agree:{cls_name}", observed=outcomes, expected="identical on every path", spec=spec)


def _dump(v, mode="python"):
    from pydantic import BaseModel

    if isinstance(v, BaseModel):
        return json.loads(v.model_dump_json()) if mode == "json" else v.model_dump()
    if isinstance(v, (list, tuple)):
        return [_dump(x, mode) for x in v]
    if isinstance(v, float) and math.isnan(v) and mode == "json":
        return v
    return v


# ------------------------------------------------------ clip evaluations
MATCH_PATTERNS = ["twin_source", "twin_target", "correct", "missing_one", "dup_source", "dup_target", "foreign_source", "foreign_target", "one_sided", "both_none", "extra_unpaired_dup", "shuffled", "dup_source_modified_copy", "dup_target_modified_copy"]


def arrangement(rng, na, npred, pattern):
    """matches as [source idx | None | 'F', target idx | None | 'F']; 'F' = foreign event."""
    a, p = list(range(na)), list(range(npred))
    rng.shuffle(a); rng.shuffle(p)
    m = []
    while a and p and rng.random() < 0.6:
        m.append([p.pop(), a.pop()])
    m += [[x, None] for x in p] + [[None, x] for x in a]
    if pattern == "missing_one" and m:
        m.pop(rng.randrange(len(m)))
    elif pattern == "dup_source" and npred:
        m.append([rng.randrange(npred), None])
    elif pattern == "dup_target" and na:
        m.append([None, rng.randrange(na)])
    elif pattern == "dup_source_modified_copy" and npred:
        m.append([f"M{rng.randrange(npred)}", None])     # same uuid, other content (re-scored prediction)
    elif pattern == "dup_target_modified_copy" and na:
        m.append([None, f"M{rng.randrange(na)}"])        # same uuid, other content (annotation with an extra tag)
    elif pattern == "twin_source" and npred:
        # an object equal in content to a predicted sound event but with its own uuid stands in for it
        k = rng.randrange(npred)
        m = [[f"T{k}" if s == k else s, t] for s, t in m]
    elif pattern == "twin_target" and na:
        k = rng.randrange(na)
        m = [[s, f"T{k}" if t == k else t] for s, t in m]
    elif pattern == "foreign_source":
        m.append(["F", None])
    elif pattern == "foreign_target":
        m.append([None, "F"])
    elif pattern == "one_sided":
        m = [[s, None] for s, _ in m if s is not None] + [[None, t] for _, t in m if t is not None]
    elif pattern == "both_none":
        m.append([None, None])
    elif pattern == "extra_unpaired_dup" and m:
        m.append(list(m[0]))
    elif pattern == "shuffled":
        rng.shuffle(m)
    return m


def ref_clip_evaluation(na, npred, same_clip, matches, score):
    if not same_clip:
        return False
    if any(s is None and t is None for s, t in matches):
        return False
    _i = lambda x: int(x[1:]) if isinstance(x, str) and x.startswith("M") else x
    if any(isinstance(x, str) and x.startswith("T") for st in matches for x in st):
        return False    # a twin (equal content, other uuid) is a foreign event
    src = [_i(s) for s, _ in matches if s is not None]
    tgt = [_i(t) for _, t in matches if t is not None]
    if len(src) != len(set(src)) or len(tgt) != len(set(tgt)):
        return False
    if set(src) != set(range(npred)) or set(tgt) != set(range(na)):
        return False
    return in_unit(score)


def judge_clip_evaluation(ctx, seed, na, npred, same_clip, matches, score, id_overlap=0):
    from soundevent import data

    spec = {"kind": "clip_evaluation", "seed": seed, "n_ann": na, "n_pred": npred, "same_clip": same_clip, "matches": matches, "score": score if score == score else "nan"}
    if id_overlap:
        spec["id_overlap"] = id_overlap
        ctx.mon("id_spaces_overlap")
    want = ref_clip_evaluation(na, npred, same_clip, matches, score)

    def parts():
        g = graphs.GraphGen(seed, p_opt=0.3, p_share=0.3, size=1, geom_types=["BoundingBox", "TimeInterval"])
        clip = g.clip()
        clip2 = clip if same_clip else g.clip(recording=clip.recording)
        anns = [g.se_annotation(clip) for _ in range(na)]
        preds = [g.se_prediction(clip2) for _ in range(npred)]
        # annotations and predictions are two identifier spaces (two AOEF tables): the first ``id_overlap`` predictions
        # carry the uuid of an annotation of the same clip (predictions derived from annotated events)
        for i in range(min(id_overlap, na, npred)):
            preds[i] = preds[i].model_copy(update={"uuid": anns[i].uuid})
        fa, fp = g.se_annotation(clip), g.se_prediction(clip)
        ca = data.ClipAnnotation(uuid=g.uid(), clip=clip, sound_events=anns, created_on=g.dt())
        cp = data.ClipPrediction(uuid=g.uid(), clip=clip2, sound_events=preds)
        ms = []
        for s, t in matches:
            def mod(x, pool, kind):
                if isinstance(x, str) and x.startswith("T"):
                    return pool[int(x[1:])].model_copy(update={"uuid": g.uid()})
                if isinstance(x, str) and x.startswith("M"):
                    base = pool[int(x[1:])]
                    if kind == "pred":
                        return base.model_copy(update={"score": 0.123, "tags": []})
                    return base.model_copy(update={"tags": list(base.tags) + [g.tag(fresh=True)], "notes": []})
                return pool[x]
            so = fp if s == "F" else (None if s is None else mod(s, preds, "pred"))
            to = fa if t == "F" else (None if t is None else mod(t, anns, "ann"))
            ms.append(dict(uuid=g.uid(), source=so, target=to, affinity=0.5 if (so and to) else 0.0))
        return ca, cp, ms

    def kwargs():
        ca, cp, ms = parts()
        return dict(annotations=ca, predictions=cp, matches=[data.Match(**m) for m in ms], score=score)

    def kwargs_raw():
        ca, cp, ms = parts()
        return dict(annotations=ca, predictions=cp, matches=ms, score=score)

    outcomes = {}
    from pydantic import ValidationError

    def build(path):
        if path == "constructor":
            return data.ClipEvaluation(**kwargs())
        kw = kwargs_raw()
        if path == "dict":
            raw = {k: _dumpd(v) for k, v in kw.items()}
            if ctx.every(spec, 2):
                # raw data is any mapping (a read-only view, a UserDict, a database row), not only a dict
                ctx.mon("attempt.dict_as_other_mapping")
                raw = _as_mapping(raw, 0)
            return data.ClipEvaluation.model_validate(raw)
        return data.ClipEvaluation.model_validate_json(json.dumps({k: _dumpd(v, "json") for k, v in kw.items()}, default=_jd))

    for p in PATHS:
        if p == "json" and isinstance(score, float) and math.isnan(score):
            continue
        outcomes[p] = _attempt(ctx, "ClipEvaluation", p, build, spec, want)
    ctx.mon("paths_agree")
    if len(set(outcomes.values())) > 1:
        ctx.violate("paths_agree", "paths_agree:ClipEvaluation", observed=outcomes, expected="identical on every path", spec=spec)
    if not same_clip and not (isinstance(score, float) and math.isnan(score)):
        # raw data that leaves the clips' (defaulted) uuid out: two different clips get two fresh, different identifiers,
        # so the evaluation is still over two clips and still invalid
        def strip(d):
            d = _dumpd(d, "json")
            d.get("clip", {}).pop("uuid", None)
            return d

        def build_no_ids(path):
            kw = kwargs_raw()
            raw = {k: _dumpd(v, "json") for k, v in kw.items()}
            raw["annotations"], raw["predictions"] = strip(kw["annotations"]), strip(kw["predictions"])
            if path == "dict":
                return data.ClipEvaluation.model_validate(raw)
            return data.ClipEvaluation.model_validate_json(json.dumps(raw, default=_jd))

        ctx.mon("defaulted_field_omitted")
        for p in ("dict", "json"):
            _attempt(ctx, "ClipEvaluation", p, build_no_ids, dict(spec, omitted="clip uuids"), False)


def _as_mapping(v, depth):
    import collections
    import types

    if isinstance(v, dict):
        inner = {k: _as_mapping(x, depth + 1) for k, x in v.items()}
        return types.MappingProxyType(inner) if depth % 2 else collections.UserDict(inner)
    if isinstance(v, list):
        return [_as_mapping(x, depth + 1) for x in v]
    return v


def _dumpd(v, mode="python"):
    from pydantic import BaseModel

    if isinstance(v, BaseModel):
        return json.loads(v.model_dump_json()) if mode == "json" else v.model_dump()
    if isinstance(v, dict):
        return {k: _dumpd(x, mode) for k, x in v.items()}
    if isinstance(v, (list, tuple)):
        return [_dumpd(x, mode) for x in v]
    if isinstance(v, uuid.UUID) and mode == "json":
        return str(v)
    return v


# -------------------------------------------------------------- scores
SCORES = [-1e-9, -0.0, 0, 5e-324, 0.5, 1 - 2 ** -53, 1, 1.0, 1 + 2 ** -52, 2, -1, float("nan"), None]


def judge_score(ctx, seed, cls_name, field, value):
    from soundevent import data

    spec = {"kind": "score", "seed": seed, "class": cls_name, "field": field, "value": "nan" if (isinstance(value, float) and value != value) else value}
    optional = (cls_name, field) in (("Match", "score"), ("ClipEvaluation", "score"))
    if value is None and not optional:
        return
    want = in_unit(value)

    def kw():
        g = graphs.GraphGen(seed, p_opt=0.3, p_share=0.3, size=1, geom_types=["BoundingBox"])
        clip = g.clip()
        if cls_name == "PredictedTag":
            return data.PredictedTag, dict(tag=g.tag(), score=value)
        if cls_name == "SoundEventPrediction":
            return data.SoundEventPrediction, dict(uuid=g.uid(), sound_event=g.sound_event(clip), score=value)
        if cls_name == "SequencePrediction":
            return data.SequencePrediction, dict(uuid=g.uid(), sequence=g.sequence(clip), score=value)
        if cls_name == "Match":
            base = dict(uuid=g.uid(), source=g.se_prediction(clip), target=g.se_annotation(clip), affinity=0.5, score=0.5)
            base[field] = value
            return data.Match, base
        ca = data.ClipAnnotation(uuid=g.uid(), clip=clip, created_on=g.dt())
        cp = data.ClipPrediction(uuid=g.uid(), clip=clip)
        return data.ClipEvaluation, dict(uuid=g.uid(), annotations=ca, predictions=cp, score=value)

    cls = kw()[0]
    nan = isinstance(value, float) and math.isnan(value)
    _three_paths(ctx, cls_name, cls, lambda: kw()[1], spec, want, json_ok=not nan)


# ---------------------------------------------------------------- clips
def judge_clip(ctx, start, end, as_strings):
    from soundevent import data

    spec = {"kind": "clip", "start": start, "end": end, "as_strings": as_strings}
    want = float(start) <= float(end)
    rec = data.Recording(uuid=uuid.UUID(int=5), path="a.wav", duration=100.0, channels=1, samplerate=8000)

    def kw():
        s, e = (repr(float(start)) if as_strings else start), (repr(float(end)) if as_strings else end)
        if as_strings == "int_strings":
            s, e = str(int(start)), str(int(end))
        return dict(uuid=uuid.UUID(int=9), recording=rec, start_time=s, end_time=e)

    if not as_strings:
        _three_paths(ctx, "Clip", data.Clip, kw, spec, want)
    else:
        # numeric strings arrive through the dict path (CSV-sourced data); pydantic lax mode coerces them
        from pydantic import ValidationError

        ctx.mon("attempt.dict_strings")
        try:
            c = data.Clip.model_validate(kw())
        except ValidationError:
            if want:
                ctx.note("numeric_strings_rejected")  # rejecting strings altogether is also sound
            return
        if not want:
            key = "accepts_invalid:Clip:numeric_strings"
            ctx.violate("accepts_invalid", key, observed=[c.start_time, c.end_time], expected="ValidationError (start > end)", spec=spec)


# ---------------------------------------------------- annotation projects
def judge_project(ctx, seed, n_ann, task_pattern):
    from soundevent import data

    if task_pattern == "omitted":      # replay of the omitted-argument variant
        task_pattern = "none"
    spec = {"kind": "project", "seed": seed, "n_ann": n_ann, "tasks": task_pattern}

    def kw():
        g = graphs.GraphGen(seed, p_opt=0.3, p_share=0.0, size=1, geom_types=["BoundingBox"])
        cas = [g.clip_annotation(g.clip(recording=g.recording(subdir=f"s{i}"))) for i in range(n_ann)]
        clips = [ca.clip for ca in cas]
        extra = g.clip(recording=g.recording(subdir="extra"))
        if task_pattern == "all":
            tc = clips
        elif task_pattern == "all_plus_extra":
            tc = clips + [extra]
        elif task_pattern == "missing_one":
            tc = clips[1:]
        elif task_pattern == "none":
            tc = []
        elif task_pattern == "only_extra":
            tc = [extra]
        elif task_pattern == "copy_of_clip":
            tc = [c.model_copy(deep=True) for c in clips]
        elif task_pattern == "twin_of_first" and clips:
            # a different clip (own uuid) covering exactly the same segment of the same recording: not the annotated clip
            tc = clips[1:] + [clips[0].model_copy(update={"uuid": g.uid()})]
        else:
            tc = clips + clips[:1]
        tasks = [data.AnnotationTask(uuid=g.uid(), clip=c, created_on=g.dt()) for c in tc]
        return dict(uuid=g.uid(), name="p", clip_annotations=cas, tasks=tasks, created_on=g.dt()), {c.uuid for c in clips} <= {c.uuid for c in tc}

    want = kw()[1]
    _three_paths(ctx, "AnnotationProject", data.AnnotationProject, lambda: kw()[0], spec, want)
    if task_pattern == "none":
        # no tasks at all can also be said by leaving the argument out (the field has a default): same answer
        ctx.mon("defaulted_field_omitted")
        _three_paths(ctx, "AnnotationProject", data.AnnotationProject, lambda: {k: v for k, v in kw()[0].items() if k != "tasks"}, dict(spec, tasks="omitted"), want)


# ------------------------------------------------------------ AOEF path
AOEF_EDITS = ["none", "reorder_matches", "drop_match_ref", "dup_match_ref", "match_both_null", "other_clip", "score_out_of_range", "affinity_out_of_range",
              "prediction_score_out_of_range", "predicted_tag_score_out_of_range", "clip_reversed", "clip_eval_score_out_of_range",
              # additive edits: an otherwise complete document gains one EXTRA invalid member, listed by its owner
              "extra_null_match_listed", "extra_prediction_out_of_range_listed", "extra_predicted_tag_out_of_range",
              # ... and a duplicate of an existing [tag, score] pair, with an out-of-range score, listed BEFORE the valid one,
              # on each kind of owner (sound event / clip / sequence prediction)
              "duplicate_predicted_tag_out_of_range_first:sound_event_predictions", "duplicate_predicted_tag_out_of_range_first:clip_predictions",
              "duplicate_predicted_tag_out_of_range_first:sequence_predictions"]


def judge_aoef_evaluation(ctx, seed, edit):
    import soundevent.io as IO
    from soundevent import data

    spec = {"kind": "aoef_evaluation", "seed": seed, "edit": edit}
    g = graphs.GraphGen(seed, p_opt=0.6, p_share=0.3, size=2, geom_types=["BoundingBox", "TimeInterval", "Point"])
    ces = []
    for _ in range(2):
        ce = g.clip_evaluation()
        ces.append(ce)
    ev = data.Evaluation(uuid=g.uid(), created_on=g.dt(), evaluation_task="t", clip_evaluations=ces, score=0.5)
    path = os.path.join(AC.tmpdir(), f"c04-{os.getpid()}.json")
    AC.install()
    AC.raw_save(ev, path)
    doc = json.loads(Path(path).read_text())
    d = doc["data"]
    want = True
    applicable = True
    ce0 = next((c for c in d.get("clip_evaluations", []) if c.get("matches")), None)
    rng = g.rng
    if edit == "reorder_matches":
        if ce0 and len(ce0["matches"]) > 1:
            ce0["matches"] = ce0["matches"][::-1]
        else:
            applicable = False
    elif edit == "drop_match_ref":
        if ce0:
            ce0["matches"].pop(rng.randrange(len(ce0["matches"])))
            want = False
        else:
            applicable = False
    elif edit == "dup_match_ref":
        if ce0:
            ce0["matches"].append(ce0["matches"][0])
            want = False
        else:
            applicable = False
    elif edit == "match_both_null":
        if d.get("matches"):
            m = rng.choice(d["matches"]); m.pop("source", None); m.pop("target", None)
            want = False
        else:
            applicable = False
    elif edit == "other_clip":
        cps = d.get("clip_predictions") or []
        clips = [c["uuid"] for c in d.get("clips") or []]
        cand = [(cp, c) for cp in cps for c in clips if c != cp["clip"]]
        if cand:
            cp, c = rng.choice(cand); cp["clip"] = c
            want = False
        else:
            applicable = False
    elif edit in ("score_out_of_range", "affinity_out_of_range"):
        if d.get("matches"):
            rng.choice(d["matches"])["score" if edit.startswith("score") else "affinity"] = rng.choice([1.0000001, -1e-9, 2, -1])
            want = False
        else:
            applicable = False
    elif edit == "prediction_score_out_of_range":
        if d.get("sound_event_predictions"):
            rng.choice(d["sound_event_predictions"])["score"] = rng.choice([1.5, -0.25])
            want = False
        else:
            applicable = False
    elif edit == "predicted_tag_score_out_of_range":
        cand = [sp for sp in d.get("sound_event_predictions") or [] if sp.get("tags")]
        if cand:
            rng.choice(cand)["tags"][0][1] = rng.choice([1.5, -0.25])
            want = False
        else:
            applicable = False
    elif edit == "clip_reversed":
        if d.get("clips"):
            c = rng.choice(d["clips"]); c["start_time"], c["end_time"] = c["end_time"] + 1.0, c["start_time"]
            want = False
        else:
            applicable = False
    elif edit == "clip_eval_score_out_of_range":
        if d.get("clip_evaluations"):
            rng.choice(d["clip_evaluations"])["score"] = 1.25
            want = False
        else:
            applicable = False
    elif edit == "extra_null_match_listed":
        if ce0:
            mid = str(g.uid())
            d.setdefault("matches", []).append({"uuid": mid, "affinity": 0.0, "score": None})
            ce0["matches"].append(mid)
            want = False
        else:
            applicable = False
    elif edit == "extra_prediction_out_of_range_listed":
        cps = [cp for cp in d.get("clip_predictions") or [] if cp.get("sound_events")]
        seps = d.get("sound_event_predictions") or []
        if cps and seps:
            extra = dict(rng.choice(seps)); extra["uuid"] = str(g.uid()); extra["score"] = rng.choice([1.5, -0.25, 1.0000001])
            seps.append(extra)
            rng.choice(cps)["sound_events"].append(extra["uuid"])
            want = False
        else:
            applicable = False
    elif edit == "extra_predicted_tag_out_of_range":
        cand = [sp for sp in d.get("sound_event_predictions") or [] if sp.get("tags")]
        if cand:
            sp = rng.choice(cand)
            sp["tags"].append([sp["tags"][0][0], rng.choice([1.5, -0.25])])
            want = False
        else:
            applicable = False
    elif edit.startswith("duplicate_predicted_tag_out_of_range_first:"):
        owners = [o for o in (d.get(edit.split(":", 1)[1]) or []) if o.get("tags")]
        if owners:
            o = rng.choice(owners)
            j = rng.randrange(len(o["tags"]))
            o["tags"].insert(rng.randint(0, j), [o["tags"][j][0], rng.choice([1.7, -0.3, 1.0000001])])
            want = False
        else:
            applicable = False
    if not applicable:
        ctx.note("aoef_edit_not_applicable")
        return
    Path(path).write_text(json.dumps(doc))
    ctx.mon("attempt.aoef")
    try:
        loaded = IO.load(path)
    except ValueError:
        if want:
            ctx.violate("rejects_valid", f"rejects_valid:aoef:{edit}", observed="ValueError", expected="loaded", spec=spec)
        return
    except Exception as e:
        ctx.violate_exc("wrong_exception", f"wrong_exception:aoef:{edit}:{type(e).__name__}", e, spec=spec)
        return
    if not want:
        ctx.violate("accepts_invalid", f"accepts_invalid:aoef:{edit}", observed="loaded", expected="validation error", spec=spec)
        return
    check_invariants(ctx, loaded, "io.load")


def judge_aoef_project(ctx, seed, edit):
    import soundevent.io as IO

    spec = {"kind": "aoef_project", "seed": seed, "edit": edit}
    obj, g = graphs.make("annotation_project", seed, p_opt=0.5, p_share=0.2, size=2)
    path = os.path.join(AC.tmpdir(), f"c04p-{os.getpid()}.json")
    AC.install()
    AC.raw_save(obj, path)
    doc = json.loads(Path(path).read_text())
    d = doc["data"]
    ann_clips = {ca["clip"] for ca in d.get("clip_annotations") or []}
    want = True
    if edit == "drop_task_of_annotated_clip":
        idx = [i for i, t in enumerate(d.get("tasks") or []) if t["clip"] in ann_clips]
        if not idx:
            ctx.note("aoef_edit_not_applicable")
            return
        d["tasks"].pop(g.rng.choice(idx))
        want = False
    elif edit == "drop_task_of_other_clip":
        idx = [i for i, t in enumerate(d.get("tasks") or []) if t["clip"] not in ann_clips]
        if not idx:
            ctx.note("aoef_edit_not_applicable")
            return
        d["tasks"].pop(g.rng.choice(idx))
    elif edit == "task_moved_to_twin_clip":
        # the task of an annotated clip now points at a new clip entry with the same recording / start / end but its own uuid
        idx = [i for i, t in enumerate(d.get("tasks") or []) if t["clip"] in ann_clips]
        if not idx:
            ctx.note("aoef_edit_not_applicable")
            return
        t = d["tasks"][g.rng.choice(idx)]
        src = next(c for c in d["clips"] if c["uuid"] == t["clip"])
        twin = dict(src, uuid=str(g.uid()))
        d["clips"].append(twin)
        t["clip"] = twin["uuid"]
        want = False
    elif edit == "drop_all_tasks":
        if not ann_clips:
            ctx.note("aoef_edit_not_applicable")
            return
        d["tasks"] = []
        want = False
    Path(path).write_text(json.dumps(doc))
    ctx.mon("attempt.aoef")
    try:
        loaded = IO.load(path)
    except ValueError:
        if want:
            ctx.violate("rejects_valid", f"rejects_valid:aoef_project:{edit}", observed="ValueError", expected="loaded", spec=spec)
        return
    except Exception as e:
        ctx.violate_exc("wrong_exception", f"wrong_exception:aoef_project:{edit}:{type(e).__name__}", e, spec=spec)
        return
    if not want:
        ctx.violate("accepts_invalid", f"accepts_invalid:aoef_project:{edit}", observed="loaded", expected="validation error", spec=spec)
        return
    check_invariants(ctx, loaded, "io.load")


def run(ctx):
    rng = ctx.rng
    ctx.rule = ("construction attempts of ClipEvaluation / Match / AnnotationProject / Clip / scored classes from arrangement specs through constructor, dict, JSON and edited AOEF documents; "
                "non-trivial = at least one annotation or prediction, or a boundary value; distinct = distinct case spec")
    ctx.assumptions += ["AOEF path: the document is obtained by saving a valid object and editing the JSON text with operators whose effect on the invariants is known",
                        "numeric strings for Clip times are exercised through the dict path only (pydantic lax coercion)"]
    ctx.must_monitors += ["attempt.constructor", "attempt.dict", "attempt.json", "attempt.aoef", "paths_agree", "invariant_walker", "attempt.dict_strings"]
    ctx.must_reach += ["data/clip_evaluations.py::ClipEvaluation._check_matches", "data/clip_evaluations.py::ClipEvaluation._check_clips_match",
                       "data/matches.py::Match._validate_match", "data/annotation_projects.py::AnnotationProject._annotations_are_part_of_the_project",
                       "data/clips.py::Clip._validate_times"]
    # clip evaluations
    for na in range(0, 5 if ctx.thorough else 4):
        for npred in range(0, 5 if ctx.thorough else 4):
            for pattern in MATCH_PATTERNS:
                for same_clip in (True, True, False):
                    if (na + npred + len(pattern)) % ctx.nshards != ctx.shard % max(1, ctx.nshards) and ctx.nshards > 1 and rng.random() < 0.5:
                        continue
                    seed = rng.getrandbits(32)
                    m = arrangement(rng, na, npred, pattern)
                    score = rng.choice([None, None, 0.5, 1.0, 1.5])
                    ctx.case(("clip_evaluation", na, npred, pattern, "same" if same_clip else "other_clip"),
                             {"kind": "clip_evaluation", "seed": seed, "n_ann": na, "n_pred": npred, "same_clip": same_clip, "matches": m, "score": score},
                             nontrivial=(na + npred) > 0)
                    judge_clip_evaluation(ctx, seed, na, npred, same_clip, m, score)
                    if na and npred and (na + npred + len(pattern)) % 2 == 0:
                        k = rng.choice([1, min(na, npred)])
                        ctx.case(("clip_evaluation", na, npred, pattern, "same" if same_clip else "other_clip", "shared_ids"),
                                 {"kind": "clip_evaluation", "seed": seed, "n_ann": na, "n_pred": npred, "same_clip": same_clip, "matches": m, "score": score, "id_overlap": k})
                        judge_clip_evaluation(ctx, seed, na, npred, same_clip, m, score, id_overlap=k)
    # scores
    for cls_name, field in [("PredictedTag", "score"), ("SoundEventPrediction", "score"), ("SequencePrediction", "score"), ("Match", "score"),
                            ("Match", "affinity"), ("ClipEvaluation", "score")]:
        for v in SCORES:
            seed = rng.getrandbits(32)
            ctx.case(("score", cls_name, field, "nan" if (isinstance(v, float) and v != v) else str(v)), {"kind": "score", "class": cls_name, "field": field, "value": str(v)})
            judge_score(ctx, seed, cls_name, field, v)
    # clips
    grid = [-2.0, -1, -0.0, 0, 0.0, 5e-324, 1e-9, 1, 2.0]
    pairs = [(0.0, 1.0), (1.0, 1.0), (1.0, 0.5), (0, 0), (2, 1), (1e-9, 0.0), (5.0, 5.0 + 1e-12), (10.0, 9.0), (9.0, 10.0), (100.0, 20.0), (2.0, 10.0), (1.5, 1.25)]
    pairs += [(a, b) for a in grid for b in grid]
    for s, e in pairs:
        for strings in (False, True, "int_strings"):
            if strings == "int_strings" and (s != int(s) or e != int(e)):
                continue
            if strings and (s < 0 or e < 0 or 0 < abs(s) < 1e-6 or 0 < abs(e) < 1e-6):
                continue
            ctx.case(("clip", "lt" if s < e else "eq" if s == e else "gt", "strings" if strings else "numbers"), {"kind": "clip", "start": s, "end": e, "as_strings": strings})
            judge_clip(ctx, s, e, strings)
    # projects
    for _rep in range(ctx.scale(4, 12)):
        for n_ann in (0, 1, 2, 3):
            for pat in ("all", "all_plus_extra", "missing_one", "none", "only_extra", "copy_of_clip", "duplicated_task", "twin_of_first"):
                seed = rng.getrandbits(32)
                ctx.case(("project", n_ann, pat), {"kind": "project", "seed": seed, "n_ann": n_ann, "tasks": pat}, nontrivial=n_ann > 0)
                judge_project(ctx, seed, n_ann, pat)
    # AOEF path
    for _ in range(ctx.scale(10, 40)):
        for edit in AOEF_EDITS:
            seed = rng.getrandbits(32)
            ctx.case(("aoef_evaluation", edit), {"kind": "aoef_evaluation", "seed": seed, "edit": edit})
            judge_aoef_evaluation(ctx, seed, edit)
        for edit in ("none", "drop_task_of_annotated_clip", "drop_task_of_other_clip", "drop_all_tasks", "task_moved_to_twin_clip"):
            seed = rng.getrandbits(32)
            ctx.case(("aoef_project", edit), {"kind": "aoef_project", "seed": seed, "edit": edit})
            judge_aoef_project(ctx, seed, edit)


def replay(ctx, w):
    s = w["spec"]
    ctx.case("replay", s)
    k = s["kind"]
    if k == "clip_evaluation":
        sc = float("nan") if s["score"] == "nan" else s["score"]
        judge_clip_evaluation(ctx, s["seed"], s["n_ann"], s["n_pred"], s["same_clip"], s["matches"], sc, id_overlap=s.get("id_overlap", 0))
    elif k == "clip":
        judge_clip(ctx, s["start"], s["end"], s["as_strings"])
    elif k == "project":
        judge_project(ctx, s["seed"], s["n_ann"], s["tasks"])
    elif k == "aoef_evaluation":
        judge_aoef_evaluation(ctx, s["seed"], s["edit"])
    elif k == "aoef_project":
        judge_aoef_project(ctx, s["seed"], s["edit"])
    elif k == "score":
        v = float("nan") if s["value"] == "nan" else s["value"]
        judge_score(ctx, s["seed"], s["class"], s["field"], v)
