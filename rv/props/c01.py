"""C01 — AOEF save/load round trip is lossless for every collection type."""

from __future__ import annotations

import os
from collections import Counter
from pathlib import Path

from pydantic import BaseModel

from rv.core import ctx as _ctx
from rv.core.walk import walk
from rv.gen import graphs
from rv.props import aoef_common as AC

ANCHORS = ("io/aoef", "io/saver.py", "io/loader.py")
THOROUGH_SHARDS = 12
AMBIENT_TESTS = ["tests/test_io"]
_spec = None
CYCLES = 2


def _hook(obj, path, audio_dir):
    c = _ctx.CURRENT
    if c is None:
        return
    AC.roundtrip(c, obj, path, audio_dir, _spec or {"kind": "ambient", "collection": type(obj).__name__}, cycles=CYCLES)


def shape(obj):
    """(n_instances, has_shared)."""
    incoming = Counter()
    n = 0
    for _, inst in walk(obj):
        n += 1
        for f in type(inst).model_fields:
            v = getattr(inst, f)
            vs = v if isinstance(v, (list, tuple)) else [v]
            for x in vs:
                if isinstance(x, BaseModel) and type(x).__name__ != "Term":
                    incoming[id(x)] += 1
    return n, any(k >= 2 for k in incoming.values())


def _edit_in_place(obj, gen):
    """A few edits an application would make on a loaded / built collection; returns their names."""
    done = []
    for _, inst in walk(obj):
        n = type(inst).__name__
        if n in ("SoundEventAnnotation", "ClipAnnotation", "SequenceAnnotation") and "tag" not in done:
            inst.tags.append(gen.tag(fresh=True))            # a tag nobody has seen before
            inst.notes.append(gen.note())
            done.append("tag")
        elif n == "Recording" and "recording" not in done:
            inst.rights = "edited rights"
            inst.owners.append(gen.user(fresh=True))
            done.append("recording")
        elif n == "SoundEventPrediction" and "prediction" not in done:
            inst.score = 0.0625
            inst.tags = list(inst.tags)[::-1]
            done.append("prediction")
        elif n == "Sequence" and "sequence" not in done and inst.sound_events:
            inst.sound_events = list(inst.sound_events)[::-1]
            done.append("sequence")
        elif n == "Clip" and "clip" not in done:
            inst.features = list(inst.features) + [gen.data.Feature(term=gen.term("edited_feature"), value=0.0)]
            done.append("clip")
    return done


def judge(ctx, kind, graph_seed, knobs, audio_mode):
    global _spec
    import soundevent.io as IO

    root = Path(AC.tmpdir()) / "audio"
    graphs.make_link(root)
    obj, gen = graphs.make(kind, graph_seed, audio_root=root, **knobs)
    audio_dir = {"none": None, "str": str(root), "path": root}[audio_mode]
    _spec = {"kind": "graph", "collection": kind, "graph_seed": graph_seed, "knobs": knobs, "audio_dir": audio_mode, "summary": AC.summary(obj)}
    n, shared = shape(obj)
    ctx.case((kind, f"opt{knobs.get('p_opt')}", f"share{knobs.get('p_share')}", audio_mode, "size" + str(knobs.get("size", 2))), _spec, nontrivial=(n > 1 and shared))
    path = os.path.join(AC.tmpdir(), f"c01-{os.getpid()}.json")
    before = obj.model_copy(deep=True)
    try:
        IO.save(obj, path, audio_dir=audio_dir)
        # "equals the original": the original is what the caller handed in, so save must leave it alone
        ctx.mon("original_untouched_by_save")
        from rv.core.walk import diff as _diff

        dd = _diff(before, obj, term_by_label=False)
        if dd:
            ctx.violate("save_mutates_original", f"save_mutates_original:{kind}:{AC._field_key(before, dd[0])}", observed={"path": dd[0], "before": dd[1], "after": dd[2]},
                        expected="save leaves the saved object unchanged", spec=_spec)
        if graph_seed % 4 == 0:
            # the collection is edited in place (the way an annotation tool does) and saved again in the same
            # process: the second document must describe the CURRENT object (the save hook re-runs the round trip)
            edited = _edit_in_place(obj, gen)
            if edited:
                _spec = dict(_spec, edited_in_place=edited)
                ctx.mon("save_after_in_place_edit")
                IO.save(obj, path, audio_dir=audio_dir)
    except Exception as e:
        ctx.violate_exc("save_raises", f"save_raises:{kind}:{type(e).__name__}", e, spec=_spec)
    finally:
        _spec = None


def run(ctx):
    AC.install()
    AC.HOOKS[:] = [_hook]
    AC.FIELD_SEEN.clear()
    rng = ctx.rng
    from rv.props import concurrent_jobs

    concurrent_jobs.run_some(ctx, "C01", quick=3, thorough=12)        # the same calls from a thread pool (rv/core/threads.py)
    ctx.must_monitors.append("concurrent_calls")
    ctx.rule = ("(collection type, graph seed, generator knobs, audio_dir mode); object graphs over shared pools of users/tags/recordings/clips/sound events/sequences; "
                "non-trivial = at least one nested object and at least one object shared between parents; distinct = distinct (collection, seed, knobs)")
    ctx.assumptions += ["simple-label terms; feature labels distinct within a list; finite numbers; list members distinct within a collection's top-level lists",
                        "terms compare by label (the one reduction the statement permits); every other declared field compared with ==",
                        f"{CYCLES + 1} consecutive save/load cycles per graph; cycles >= 2 must be exact fixpoints (objects and documents up to the envelope created_on)"]
    ctx.must_monitors += ["roundtrip", "fixpoint", "original_untouched_by_save"]
    ctx.must_reach += ["io/aoef/__init__.py::save", "io/aoef/__init__.py::load", "io/saver.py::save"]

    # directed witnesses of the three fixed defects
    directed = [("recording_set", 1, {"p_opt": 1.0, "p_share": 0.5, "size": 2}), ("prediction_set", 2, {"p_opt": 1.0, "p_share": 0.5, "size": 2}),
                ("evaluation_set", 3, {"p_opt": 1.0, "p_share": 0.3, "size": 2})]
    for kind, s, knobs in directed:
        judge(ctx, kind, s, knobs, "none")

    n = ctx.scale(110, 300)
    for kind in graphs.COLLECTIONS:
        for i in range(n):
            knobs = {"p_opt": rng.choice([0.0, 0.3, 0.5, 0.8, 1.0]), "p_share": rng.choice([0.0, 0.4, 0.7, 0.95]), "size": rng.choice([1, 2, 2, 4]), "p_id_reuse": rng.choice([0.0, 0.0, 0.3]), "p_twin": rng.choice([0.0, 0.0, 0.4])}
            if ctx.thorough and i % 50 == 0:
                knobs["size"] = 12  # stress: large graphs
            judge(ctx, kind, rng.getrandbits(40), knobs, rng.choice(["none", "none", "str", "path"]))

    gaps = AC.field_coverage_gaps()
    ctx.extra["fields_tracked_set"] = sum(1 for (c, f, s) in AC.FIELD_SEEN if s == "set")
    ctx.extra["field_coverage_gaps"] = gaps
    for g in gaps:
        ctx.inconclusive_because(f"field_never_exercised_set:{g}")


def replay(ctx, w):
    AC.install()
    AC.HOOKS[:] = [_hook]
    s = w["spec"]
    judge(ctx, s["collection"], s["graph_seed"], s["knobs"], s["audio_dir"])


def ambient_install():
    AC.install()
    AC.HOOKS[:] = [_hook]
