"""C09 — evaluation metrics are what their terms say, in all four tasks."""

from __future__ import annotations

import math
import os
import warnings

import numpy as np

from rv.props import aoef_common as AC
from rv.props import c04
from rv.props import eval_common as E

ANCHORS = ("evaluation/tasks", "evaluation/metrics.py", "terms/metrics.py", "io/aoef/evaluation.py")
THOROUGH_SHARDS = 12


def _task(name):
    from soundevent.evaluation import tasks

    return getattr(tasks, name)


def _labels(features):
    return [f.term.label for f in features]


def judge_metrics(ctx, features, Y, S, spec, level, multilabel=False):
    """features: list[data.Feature]; Y, S: truths and score rows of the evaluated items."""
    labels = _labels(features)
    ctx.mon("metric_lists")
    if len(set(labels)) != len(labels):
        dup = sorted({l for l in labels if labels.count(l) > 1})
        ctx.violate("distinct_terms", f"distinct_terms:{spec['task']}:{level}", observed=labels, expected="pairwise distinct terms", spec=spec)
        return
    for f in features:
        lab, v = f.term.label, f.value
        ctx.mon("metric_values")
        key = f"metric_value:{spec['task']}:{level}:{lab}"
        if lab not in E.METRIC_LABELS:
            ctx.note(f"unknown_term:{lab}")
            continue
        if lab in ("Accuracy", "Top 3 Accuracy", "Balanced Accuracy"):
            if not len(Y):
                ctx.dc("metric_on_no_items")
                continue
            lo, hi = (E.balanced_accuracy_bounds(Y, S) if lab == "Balanced Accuracy" else E.accuracy_bounds(Y, S, 3 if lab.startswith("Top") else 1))
            if hi - lo > 1e-12:
                ctx.dc("score_ties")
            if not (lo - 1e-9 <= v <= hi + 1e-9):
                ctx.violate("metric_value", key, observed=v, expected=[lo, hi], spec=spec)
        elif lab == "Mean Average Precision":
            want = E.mean_average_precision(Y, S, multilabel=multilabel)
            if want is None:
                ctx.dc("map_class_without_positive")
                continue
            if not E.close(v, want):
                ctx.violate("metric_value", key, observed=v, expected=want, spec=spec)
        elif lab == "Average Precision":
            want = E.step_ap(Y, S)
            if want is None:
                ctx.dc("ap_without_positive")
                continue
            if not E.close(v, want):
                ctx.violate("metric_value", key, observed=v, expected=want, spec=spec)
        elif lab == "Jaccard Index":
            want = E.jaccard(Y, S)
            if want is None:
                ctx.dc("jaccard_empty")
                continue
            if not E.close(v, want):
                ctx.violate("metric_value", key, observed=v, expected=want, spec=spec)
        elif lab == "True Class Probability":
            want = E.class_probability(Y, np.asarray(S, float))
            if not E.close(v, want, 1e-6):
                ctx.violate("metric_value", key, observed=v, expected=want, spec=spec)


def _mean_ok(ctx, got, parts, what, spec):
    parts = [p for p in parts if p is not None]
    ctx.mon("score_aggregation")
    if not parts:
        return
    want = float(np.mean(parts))
    if got is None or (isinstance(got, float) and math.isnan(got)) or abs(got - want) > 1e-9:
        ctx.violate("scores_are_means", f"scores_are_means:{spec['task']}:{what}", observed=got, expected=want, spec=spec)


def run_task(ctx, spec, order=None, twice=False):
    cps, cas, tags, idx = E.build(spec, order)
    with warnings.catch_warnings():
        warnings.simplefilter("ignore")
        ev = _task(spec["task"])(cps, cas, tags)
        if twice and ctx.every(spec, 3):
            evk = _task(spec["task"])(clip_predictions=tuple(cps), clip_annotations=tuple(cas), tags=tuple(tags))     # by keyword, as tuples
            ctx.mon("calling_conventions")
            d = _cmp(summarise(ev), summarise(evk))
            if d:
                ctx.violate("calling_convention", f"calling_convention:{spec['task']}:keywords_and_tuples", observed={"differs_at": d}, expected="same result", spec=spec)
        if twice:
            # the same objects evaluated a second time: state left behind by the first call must not matter
            ev2 = _task(spec["task"])(cps, cas, tags)
            ctx.mon("repeat_call")
            d = _cmp(summarise(ev), summarise(ev2))
            if d:
                ctx.violate("repeat_call_differs", f"repeat_call_differs:{spec['task']}", observed={"differs_at": d}, expected="same result on the second call", spec=spec)
            # the caller owns a returned evaluation: it edits the second one in place (metric lists, matches, scores),
            # then evaluates freshly built, equal inputs: same result as the first
            want = summarise(ev)
            from rv.core import scribble

            acted = scribble.scribble(ev2.metrics) + scribble.scribble(ev2.clip_evaluations)
            for ce in list(ev2.clip_evaluations)[:2]:
                if hasattr(ce, "metrics"):
                    acted += scribble.scribble(ce.metrics) + scribble.scribble(ce.matches)
            if acted:
                ctx.mon("repeat_after_result_edit")
                cps3, cas3, tags3, _ = E.build(spec, order)
                ev3 = _task(spec["task"])(cps3, cas3, tags3)
                d = _cmp(want, summarise(ev3))
                if d:
                    ctx.violate("repeat_call_differs", f"repeat_call_differs:{spec['task']}:after_caller_edited_earlier_result", observed={"differs_at": d}, expected="same result for equal inputs", spec=spec)
    return ev, idx


def summarise(ev):
    """Order-independent summary of an evaluation (for permutation and save/load comparison)."""
    def fm(fs):
        out = {}
        for f in fs:
            out.setdefault(f.term.label, []).append(f.value)
        return {k: sorted(v) for k, v in out.items()}
    clips = {}
    for ce in ev.clip_evaluations:
        clips[str(ce.annotations.clip.uuid) + "/" + str(ce.predictions.uuid)] = {"score": ce.score, "metrics": fm(ce.metrics), "n_matches": len(ce.matches),
                                                "match_scores": sorted((m.score if m.score is not None else -1.0) for m in ce.matches)}
    return {"score": ev.score, "metrics": fm(ev.metrics), "clips": clips}


def _cmp(a, b, path=""):
    if isinstance(a, dict) and isinstance(b, dict):
        if set(a) != set(b):
            return f"{path}:keys"
        for k in a:
            r = _cmp(a[k], b[k], f"{path}.{k}")
            if r:
                return r
        return None
    if isinstance(a, list) and isinstance(b, list):
        if len(a) != len(b):
            return f"{path}:len"
        for x, y in zip(a, b):
            r = _cmp(x, y, path)
            if r:
                return r
        return None
    if a is None or b is None:
        return None if a is b else path
    if isinstance(a, float) and isinstance(b, float) and math.isnan(a) and math.isnan(b):
        return None
    return None if abs(a - b) <= 1e-9 else path


def judge_result(ctx, spec, ev, idx):
    """Judge one Evaluation against the spec it was computed from (truths and scores re-derived from the spec)."""
    task, vocab = spec["task"], spec["vocab"]
    ctx.mon("task_results")
    c04.check_invariants(ctx, ev, f"task:{task}")
    evaluated = {str(E._u("clip", ci)): ci for ci, c in enumerate(spec["clips"]) if c["only"] == "both"}
    got_clips = [str(ce.annotations.clip.uuid) for ce in ev.clip_evaluations]
    if sorted(got_clips) != sorted(E.expected_clip_ids(spec)):
        ctx.violate("evaluated_clips", f"evaluated_clips:{task}", observed=len(got_clips), expected=len(E.expected_clip_ids(spec)), spec=spec)
        return False
    ml = task == "clip_multilabel_classification"
    Y, S = [], []
    for ce in ev.clip_evaluations:
        ci = evaluated[str(ce.annotations.clip.uuid)]
        c = spec["clips"][ci]
        if task in ("clip_classification", "clip_multilabel_classification"):
            y = E.multilabel_truth(vocab, c["ann_tags"]) if ml else E.true_class(vocab, c["ann_tags"])
            s = E.score_vector(vocab, E.pred_tags_of(spec, ci, ce))
            Y.append(y); S.append(s)
            judge_metrics(ctx, ce.metrics, y, s, spec, "clip", multilabel=ml)
            if not ml:
                ctx.mon("score_aggregation")
                if ce.score is None or abs(ce.score - E.class_probability(y, s)) > 1e-6:
                    ctx.violate("clip_score", f"clip_score:{task}", observed=ce.score, expected=E.class_probability(y, s), spec=spec)
        else:
            cy, cs = [], []
            for m in ce.matches:
                y = s = None
                if m.target is not None:
                    ei = idx["ann"][str(m.target.uuid)][1]
                    y = E.true_class(vocab, c["events"][ei]["ann_tags"])
                if m.source is not None:
                    ei = idx["pred"][str(m.source.uuid)][1]
                    s = E.score_vector(vocab, c["events"][ei]["pred_tags"])
                else:
                    s = np.zeros(len(vocab))
                cy.append(y); cs.append(s)
                if m.source is not None and m.target is not None:
                    judge_metrics(ctx, m.metrics, y, s, spec, "match")
                    ctx.mon("score_aggregation")
                    if m.score is None or abs(m.score - E.class_probability(y, s)) > 1e-6:
                        ctx.violate("match_score", f"match_score:{task}", observed=m.score, expected=E.class_probability(y, s), spec=spec)
            Y += cy; S += cs
            judge_metrics(ctx, ce.metrics, cy, cs, spec, "clip")
            if ce.matches:
                _mean_ok(ctx, ce.score, [m.score for m in ce.matches], "clip", spec)
    if Y:
        judge_metrics(ctx, ev.metrics, Y, S, spec, "evaluation", multilabel=ml)
    scores = [ce.score for ce in ev.clip_evaluations]
    if any(s is not None for s in scores):
        _mean_ok(ctx, ev.score, scores, "evaluation", spec)
    return True


def edited_in_place(ctx, spec):
    """The SAME prediction / annotation objects are edited in place (two clips swap their predicted tags, or two
    sound events swap their annotated tags) and evaluated again: the result must follow the current content."""
    import copy as _copy

    task = spec["task"]
    both = [i for i, c in enumerate(spec["clips"]) if c["only"] == "both"]
    if ctx.evaluations % 3 or len(both) < 2:
        return
    spec2 = _copy.deepcopy(spec)
    cps, cas, tags, idx = E.build(spec)
    main_ids = {str(E._u("cp", i)) for i in range(len(spec["clips"]))}
    by_clip_p = {str(cp.clip.uuid): cp for cp in cps if str(cp.uuid) in main_ids}     # (a clip may carry a second prediction)
    by_clip_a = {str(ca.clip.uuid): ca for ca in cas}
    a, b = both[0], both[-1]
    ua, ub = str(E._u("clip", a)), str(E._u("clip", b))
    try:
        with warnings.catch_warnings():
            warnings.simplefilter("ignore")
            _task(task)(cps, cas, tags)                      # first evaluation: whatever it remembers is now in place
            if task.startswith("clip_"):
                pa, pb = by_clip_p[ua], by_clip_p[ub]
                pa.tags, pb.tags = pb.tags, pa.tags
                spec2["clips"][a]["pred_tags"], spec2["clips"][b]["pred_tags"] = spec["clips"][b]["pred_tags"], spec["clips"][a]["pred_tags"]
            else:
                ea = [i for i, e in enumerate(spec["clips"][a]["events"]) if e["kind"] in ("ann", "both_same_event") and e.get("shared") is None]
                eb = [i for i, e in enumerate(spec["clips"][b]["events"]) if e["kind"] in ("ann", "both_same_event") and e.get("shared") is None]
                if not ea or not eb:
                    return
                i, j = ea[0], eb[0]
                sa = next(x for x in by_clip_a[ua].sound_events if str(x.uuid) == str(E._u("sea", a, i)))
                sb = next(x for x in by_clip_a[ub].sound_events if str(x.uuid) == str(E._u("sea", b, j)))
                sa.tags, sb.tags = sb.tags, sa.tags
                spec2["clips"][a]["events"][i]["ann_tags"], spec2["clips"][b]["events"][j]["ann_tags"] = spec["clips"][b]["events"][j]["ann_tags"], spec["clips"][a]["events"][i]["ann_tags"]
            ev2 = _task(task)(cps, cas, tags)
    except Exception as e:
        if task == "sound_event_detection" and no_labelled_item(spec2) and "0 sample" in str(e):
            return
        ctx.violate_exc("raises", f"raises_after_in_place_edit:{task}:{type(e).__name__}", e, spec=spec2)
        return
    ctx.mon("after_in_place_edit")
    n0 = len(ctx.violations)
    judge_result(ctx, spec2, ev2, idx)
    for v in ctx.violations[n0:]:
        v["key"] = v["key"] + ":after_in_place_edit"


def judge(ctx, spec):
    task, vocab = spec["task"], spec["vocab"]
    if n_items(spec) == 0:
        ctx.ood("no_evaluated_item")  # quantifier: at least one evaluated item overall
        return
    try:
        ev, idx = run_task(ctx, spec, twice=(ctx.evaluations % 3 == 0))
    except Exception as e:
        key = f"raises:{task}:{type(e).__name__}"
        if len(vocab) == 1:
            key = "raises:single_tag_vocabulary"
        elif task == "sound_event_detection" and no_labelled_item(spec) and "0 sample" in str(e):
            key = "raises:sound_event_detection:no_labelled_item"
        elif task == "sound_event_classification" and any(c["only"] == "both" and not c["events"] for c in spec["clips"]):
            key = f"raises:{task}:clip_without_sound_events"
        ctx.violate_exc("raises", key, e, spec=spec)
        return
    if not judge_result(ctx, spec, ev, idx):
        return
    edited_in_place(ctx, spec)
    # permutation of the clips leaves everything unchanged
    n = len(spec["clips"])
    if n > 1:
        order = list(range(n))[::-1] if n < 4 else ctx.rng.sample(range(n), n)
        try:
            ev2, _ = run_task(ctx, spec, order)
            ctx.mon("permutation")
            d = _cmp(summarise(ev), summarise(ev2))
            if d:
                ctx.violate("order_independent", f"order_independent:{task}", observed={"differs_at": d, "order": order}, expected="same metrics and scores", spec=spec)
        except Exception as e:
            ctx.violate_exc("raises", f"raises_permuted:{task}:{type(e).__name__}", e, spec=spec)
    # survives AOEF save/load with every metric intact
    AC.install()
    import soundevent.io as IO

    path = os.path.join(AC.tmpdir(), f"c09-{os.getpid()}.json")
    try:
        IO.save(ev, path)
        back = IO.load(path)
    except Exception as e:
        ctx.violate_exc("save_load_raises", f"save_load_raises:{task}:{type(e).__name__}", e, spec=spec)
        return
    ctx.mon("save_load")
    a, b = summarise(ev), summarise(back)
    d = _cmp(a, b)
    if d:
        ctx.violate("metrics_survive_aoef", f"metrics_survive_aoef:{task}:{d.split('.')[-1] if 'metrics' in d else d}", observed={"differs_at": d}, expected="every metric intact", spec=spec)


def n_items(spec):
    n = 0
    for c in spec["clips"]:
        if c["only"] == "both":
            n += 1 if spec["task"].startswith("clip_") else len(c["events"])
    return n


def no_labelled_item(spec):
    """Mechanism predicate: no annotated sound event of an evaluated clip carries a vocabulary tag
    (e.g. only false positives), so mean average precision is left with zero examples."""
    for c in spec["clips"]:
        if c["only"] != "both":
            continue
        for e in c["events"]:
            if e["kind"] in ("ann", "both_same_event") and E.true_class(spec["vocab"], e.get("ann_tags", [])) is not None:
                return False
    return True


def _nontrivial(spec):
    vocab = spec["vocab"]
    truths = set()
    n = 0
    for c in spec["clips"]:
        if c["only"] != "both":
            continue
        if spec["task"].startswith("clip_"):
            n += 1
            truths.add(str(E.true_class(vocab, c["ann_tags"])) if spec["task"] == "clip_classification" else str(E.multilabel_truth(vocab, c["ann_tags"]).tolist()))
        else:
            for e in c["events"]:
                n += 1
                truths.add(str(E.true_class(vocab, e.get("ann_tags", []))))
    return n >= 2 and len(truths) >= 2


def run(ctx):
    rng = ctx.rng
    from rv.props import concurrent_jobs

    concurrent_jobs.run_some(ctx, "C09", quick=3, thorough=12)        # the same calls from a thread pool (rv/core/threads.py)
    ctx.must_monitors.append("concurrent_calls")
    ctx.rule = ("(task, vocabulary, per-clip true tags / predicted tag scores / sound events) as a plain JSON spec; dyadic scores (multiples of 1/64) so float32 encoding is exact; "
                "non-trivial = >= 2 evaluated items with different truths; distinct = distinct spec")
    ctx.assumptions += ["metrics re-implemented with numpy only from the spec's tags (library encoders and scikit-learn not used by the oracle)",
                        "argmax / top-k under score ties are interval-valued (both outcomes accepted); mAP / AP / Jaccard undefined without positives are not judged",
                        "single-label tasks: predicted vocabulary scores of an item sum to <= 1; clip-level tasks use clips without sound events"]
    ctx.must_monitors += ["task_results", "metric_lists", "metric_values", "score_aggregation", "permutation", "save_load"]
    ctx.must_reach += [f"evaluation/tasks/{t}.py::{t}" for t in E.TASKS] + [
        f"?evaluation/metrics.py::{m}" for m in ("balanced_accuracy", "accuracy", "top_3_accuracy", "mean_average_precision", "average_precision", "jaccard", "true_class_probability")]
    # directed: single-tag vocabulary (open finding), empty clip in sound_event_classification
    for task in E.TASKS:
        spec = E.random_case(rng, task, n_vocab=1, n_clips=3)
        ctx.case((task, "vocab1", "directed"), spec, nontrivial=False)
        judge(ctx, spec)
    spec = E.random_case(rng, "sound_event_classification", n_vocab=3, n_clips=3)
    spec["clips"][1]["events"] = []
    spec["clips"][1]["only"] = "both"
    ctx.case(("sound_event_classification", "empty_clip", "directed"), spec)
    judge(ctx, spec)
    n = ctx.scale(60, 400)
    for task in E.TASKS:
        for i in range(n):
            spec = E.random_case(rng, task)
            ctx.case((task, f"vocab{len(spec['vocab'])}", "clips" + ("1" if len(spec["clips"]) == 1 else "<=4" if len(spec["clips"]) <= 4 else ">4")), spec, nontrivial=_nontrivial(spec))
            judge(ctx, spec)
    run_many_items(ctx)


def run_many_items(ctx):
    """'Over all evaluated items': one evaluation with more than 8192 (and not a multiple of any power of two) items."""
    if ctx.shard != 0:
        return
    rng = ctx.rng
    for task in ("clip_classification", "sound_event_classification"):
        n_clips = 8192 + 301 if task == "clip_classification" else 1200
        spec = E.random_case(rng, task, n_vocab=4, n_clips=n_clips)
        # a block of easy items first, the hard ones at the end (a sorted export): per-block shortcuts then differ from the whole
        for k, c in enumerate(spec["clips"]):
            c["only"] = "both"
        ctx.case((task, "many_items"), {"task": task, "vocab": spec["vocab"], "clips": f"generated:{n_clips}"}, nontrivial=True)
        judge(ctx, spec)


def replay(ctx, w):
    s = w["spec"]
    ctx.case("replay", s)
    judge(ctx, s)
