"""C11 — buffering grows a geometry and never leaves the valid domain."""

from __future__ import annotations

import math

from rv.core import ctx as _ctx
from rv.core import instrument
from rv.core.tolerances import GEOS_BUFFER_SIMPLIFY, ROUND_CAP_SHORTFALL
from rv.core import calling, scribble, threads
from rv.gen import geoms
from rv.props import c03

ANCHORS = ("geometry/operations.py",)
THOROUGH_SHARDS = 12
AMBIENT_TESTS = ["tests/test_geometry", "tests/test_evaluation"]
MAXF = float(geoms.MAXF)
_installed = False
_orig = None


def _fin(*xs):
    return all(isinstance(x, (int, float)) and not isinstance(x, bool) and math.isfinite(x) for x in xs)


def _shp(g):
    from soundevent.geometry import conversion

    return instrument.original(conversion.geometry_to_shapely)(g)


def _touches_edge_on_zero_axis(spec, tb, fb):
    """Mechanism predicate of the open finding: a 0/1-D geometry lying on the domain edge of an
    axis that is scaled extremely (zero buffer => factor 1e9, or coordinate/buffer >= 1e9): after
    clip_by_rect GEOS returns a GeometryCollection or a sliver that lost part of its outline."""
    if spec["type"] not in ("Point", "MultiPoint", "LineString", "MultiLineString"):
        return False
    pts = geoms.flat_points(spec)
    b = geoms.ref_bounds(spec)
    t_deg = tb == 0 or b[2] / tb >= 1e9
    f_deg = fb == 0 or b[3] / fb >= 1e9
    if t_deg and any(p[0] == 0 for p in pts):
        return True
    if f_deg and any(p[1] == 0 or p[1] == MAXF for p in pts):
        return True
    return False


def _zero_axis_precision(spec, tb, fb):
    """Mechanism predicate of the second open finding: the geometry is buffered in a space
    scaled by 1/buffer per axis (1e9 for a zero buffer).  When a coordinate divided by its
    buffer reaches 1e9 the scaled coordinates are so large compared with the unit buffer
    radius that GEOS quantises the outline (ulp of the coordinates, or its reduced-precision
    fallback), and extents / containment / monotonicity are off by up to several per cent."""
    if spec["type"] in ("TimeStamp", "TimeInterval", "BoundingBox"):
        return False
    b = geoms.ref_bounds(spec)
    return b[2] / max(tb, 1e-9) >= 1e9 or b[3] / max(fb, 1e-9) >= 1e9


def _fallback_grid(spec, tb, fb, rs):
    """Same mechanism at smaller ratios, identified from the OUTPUT: when the largest coordinate of the buffer-scaled
    space has d digits before the point and GEOS' full-precision buffer fails on the shape, GEOS retries on a grid of
    12 significant digits, i.e. 10**(d - 12) buffer units.  Returns that grid (in buffer units) when the library's
    outline is in fact quantised to it (>= 80 % of its vertices off the domain edges), else None.  The finding then
    explains deviations of at most one grid unit -- anything larger is reported under its own key."""
    if spec["type"] in ("TimeStamp", "TimeInterval", "BoundingBox") or not (tb > 0 and fb > 0) or rs["type"] not in ("Polygon", "MultiPolygon"):
        return None
    b = geoms.ref_bounds(spec)
    m = max(b[2] / tb, b[3] / fb) + 2.0
    if not 1e7 <= m < 2e9:
        return None
    grid = 10.0 ** (int(math.log10(m) + 1.0) - 12)
    rings = rs["coordinates"] if rs["type"] == "Polygon" else [r for poly in rs["coordinates"] for r in poly]
    on = off = 0
    for ring in rings:
        for t_, f_ in ring:
            if t_ == 0 or f_ == 0 or f_ == MAXF:
                continue
            x, y = t_ / tb / grid, f_ / fb / grid
            if abs(x - round(x)) <= 1e-3 and abs(y - round(y)) <= 1e-3:
                on += 1
            else:
                off += 1
    return grid if on and on >= 4 * off else None


def _sliver(spec, tb, fb):
    """Mechanism predicate of the open finding F31: a polygon (part) whose extent on one axis is below 1 % of that
    axis's buffer.  GEOS simplifies buffer input at that tolerance, the ring degenerates to a doubled line, and the
    mitred outline of that degenerate ring is not extended beyond the ring's closing vertex: the side next to it
    stays where the original ended (the other sides reach up to the mitre limit)."""
    if spec["type"] not in ("Polygon", "MultiPolygon") or not (tb > 0 and fb > 0):
        return False
    polys = [spec["coordinates"]] if spec["type"] == "Polygon" else spec["coordinates"]
    for poly in polys:
        shell = poly[0]
        w = (max(p[0] for p in shell) - min(p[0] for p in shell)) / tb
        h = (max(p[1] for p in shell) - min(p[1] for p in shell)) / fb
        if min(w, h) < GEOS_BUFFER_SIMPLIFY:
            return True
    return False


def _mech(spec, tb, fb):
    if _touches_edge_on_zero_axis(spec, tb, fb):
        return ":zero_buffer_on_domain_edge"
    if _zero_axis_precision(spec, tb, fb):
        return ":extreme_axis_scaling"
    if _sliver(spec, tb, fb):
        return ":sliver_below_buffer_simplification"
    return ""


_ALLOWED = {
    ":zero_buffer_on_domain_edge": ("raises:KeyError", "bounds_extend", "monotonicity", "contains_original"),
    ":extreme_axis_scaling": ("bounds_extend", "monotonicity", "contains_original", "raises:KeyError"),
    ":sliver_below_buffer_simplification": ("bounds_extend",),
}


def _key(sub, mech):
    """Mechanism key: the mechanism explains only the sub-checks it is known to break."""
    if mech and sub in _ALLOWED.get(mech, ()):
        return mech[1:]
    return sub


def _has_corner(spec):
    t, c = spec["type"], spec["coordinates"]
    if t == "LineString":
        parts = [c]
    elif t in ("MultiLineString", "Polygon"):
        parts = c
    elif t == "MultiPolygon":
        parts = [r for p in c for r in p]
    else:
        return False
    return any(len({tuple(p) for p in part}) >= 3 for part in parts)


def _post_buffer(geometry, time_buffer, freq_buffer, kwargs, result):
    c = _ctx.CURRENT
    if c is None:
        return True
    tb, fb = time_buffer, freq_buffer
    if not _fin(tb, fb) or tb < 0 or fb < 0:
        return True
    if kwargs:
        c.ood("buffer:custom_shapely_kwargs")
        return True
    spec = geoms.to_spec(geometry)
    if 0 < tb < 1e-6 or 0 < fb < 1e-6:
        c.ood("buffer:sub_epsilon_buffer")
        return True
    if not geoms.is_shapely_valid(geometry):
        c.ood("buffer:invalid_geometry")
        return True
    c.mon("buffer_geometry.post")
    sp = {"kind": "buffer", "g": spec, "tb": tb, "fb": fb}
    sfx = _mech(spec, tb, fb)
    # valid + normal form (C03 walker)
    before = len(c.violations)
    c03.check_instance(c, result, "buffer_geometry")
    rs = geoms.to_spec(result)
    t = spec["type"]
    b0 = geoms.ref_bounds(spec)
    # exact results for the three closed-form types
    if t == "TimeStamp":
        x = spec["coordinates"]
        want = {"type": "TimeInterval", "coordinates": [max(x - tb, 0), x + tb]}
    elif t == "TimeInterval":
        a, b = spec["coordinates"]
        want = {"type": "TimeInterval", "coordinates": [max(a - tb, 0), b + tb]}
    elif t == "BoundingBox":
        a, lo, b, hi = spec["coordinates"]
        want = {"type": "BoundingBox", "coordinates": [max(a - tb, 0), max(lo - fb, 0), b + tb, min(hi + fb, MAXF)]}
    else:
        want = None
    if want is not None:
        c.mon("buffer.exact")
        if rs["type"] != want["type"] or not c03._same(rs["coordinates"], want["coordinates"]):
            c.violate("exact_widening", f"exact_widening:{t}", observed=rs, expected=want, spec=sp)
        return True
    if rs["type"] not in ("Polygon", "MultiPolygon"):
        c.violate("result_type", "result_type", observed=rs["type"], expected="Polygon|MultiPolygon", spec=sp)
        return True
    # bounds extend by at least the buffers (minus the 32-gon cap band), clipped to the domain
    b1 = geoms.ref_bounds(rs)
    # how far short of the nominal buffer may a side fall?  Only the polygonal round caps at the two END vertices of
    # a line (32-gons oriented along the line, plus GEOS' input simplification there) fall short.  A side whose
    # extreme is an interior vertex of a line, a polygon vertex or a point is offset by mitre joins (which reach at
    # least the buffer distance in every axis direction) or by a 32-gon that has vertices on the axes: exact up to
    # round-off (measured <= 5e-7 of a buffer over 40 000 cases; 1e-5 allowed).
    kcap, kexact = 1 - ROUND_CAP_SHORTFALL - GEOS_BUFFER_SIMPLIFY, 1 - 1e-5
    ks = [kexact] * 4
    if t in ("LineString", "MultiLineString"):
        lines = [spec["coordinates"]] if t == "LineString" else spec["coordinates"]
        for side, (ax, sign) in enumerate(((0, -1), (1, -1), (0, 1), (1, 1))):
            ext = b0[side]
            scale = tb if ax == 0 else fb
            for ln in lines:
                for p_ in ([ln[0], ln[-1]] if len(ln) > 2 else ln):
                    # an end vertex within a cap band of the extreme: the side may be formed by its round cap
                    if abs(p_[ax] - ext) <= 0.02 * scale + 1e-12 * max(1.0, abs(ext)):
                        ks[side] = kcap
    need = (max(b0[0] - ks[0] * tb, 0.0), max(b0[1] - ks[1] * fb, 0.0), b0[2] + ks[2] * tb, min(b0[3] + ks[3] * fb, MAXF))
    st, sf = 1e-9 * max(1.0, abs(b0[2])), 1e-9 * max(1.0, abs(b0[3]))
    if b1[0] > need[0] + st or b1[1] > need[1] + sf or b1[2] < need[2] - st or b1[3] < need[3] - sf:
        grid = None if sfx else _fallback_grid(spec, tb, fb, rs)
        short = max((b1[0] - need[0]) / tb if tb else 0, (b1[1] - need[1]) / fb if fb else 0, (need[2] - b1[2]) / tb if tb else 0, (need[3] - b1[3]) / fb if fb else 0)
        if grid is not None and short <= grid:
            sfx = ":extreme_axis_scaling"
            c.note("extreme_axis_scaling:identified_from_quantised_outline")
        c.violate("bounds_extend", _key("bounds_extend", sfx), observed=list(b1), expected={"at_least": list(need), "original": list(b0)}, spec=sp)
    # contains the original
    try:
        so, sr = _shp(geometry), _shp(result)
        c.mon("buffer.contains")
        if not sr.covers(so):
            scale_t, scale_f = max(tb, 1e-9), max(fb, 1e-9)
            import shapely

            f = [1 / scale_t, 1 / scale_f]
            so2 = shapely.transform(so, lambda x: x * f)
            sr2 = shapely.transform(sr, lambda x: x * f)
            outside = so2.difference(sr2)
            # how far does the uncovered part of the original stick out?  (densified: a straight piece that leaves and
            # re-enters the result has both end points ON the result's outline)
            far = 0.0 if outside.is_empty else max(
                (shapely.Point(p).distance(sr2) for p in shapely.get_coordinates(shapely.segmentize(outside, max(0.25, outside.length / 2000.0)))), default=0.0)
            # tolerance: 1e-6 of a buffer unit (GEOS round-off on clipped outlines)
            if far > 1e-6:
                grid = None if sfx else _fallback_grid(spec, tb, fb, rs)
                if grid is not None and far <= grid:
                    sfx = ":extreme_axis_scaling"
                    c.note("extreme_axis_scaling:identified_from_quantised_outline")
                c.violate("contains_original", _key("contains_original", sfx), observed={"max_distance_in_buffer_units": far}, expected="result covers original", spec=sp)
    except Exception as e:
        c.note(f"contains_check_error:{type(e).__name__}")
    return True


def install():
    global _installed, _orig
    if _installed:
        return

    def make(orig):
        def buffer_geometry(geometry, time_buffer=0, freq_buffer=0, **kwargs):
            result = orig(geometry, time_buffer=time_buffer, freq_buffer=freq_buffer, **kwargs)
            try:
                _post_buffer(geometry, time_buffer, freq_buffer, kwargs, result)
            except Exception as exc:
                c = _ctx.CURRENT
                if c is not None:
                    c.inconclusive_because(f"monitor_error:buffer_geometry:{type(exc).__name__}:{exc}"[:200])
            return result

        return buffer_geometry

    _orig = instrument.attach("soundevent.geometry.operations", "buffer_geometry", make)
    _installed = True


def _excess(small, big, tb, fb):
    """Directed Hausdorff excess of ``small`` outside ``big`` in buffer-normalised units."""
    import shapely

    f = [1 / max(tb, 1e-9), 1 / max(fb, 1e-9)]
    s2 = shapely.transform(_shp(small), lambda x: x * f)
    b2 = shapely.transform(_shp(big), lambda x: x * f)
    out = s2.difference(b2)
    if out.is_empty:
        return 0.0
    # vertices of the uncovered part lie ON the outline of ``big`` where the two outlines cross (a filled hole has ALL its
    # vertices there): measure at densified outline points and at interior points of every uncovered piece as well
    pts = [tuple(p) for p in shapely.get_coordinates(shapely.segmentize(out, max(0.25, out.length / 2000.0)))]
    for part in getattr(out, "geoms", [out]):
        if part.area > 0:
            pts.append(part.representative_point().coords[0])
            try:
                pts.append(shapely.get_coordinates(shapely.maximum_inscribed_circle(part))[0])
            except Exception:
                pass
    return max((shapely.Point(p).distance(b2) for p in pts), default=0.0)


def judge(ctx, spec, tb, fb, tb2=None, fb2=None):
    from soundevent.geometry import operations as O

    sp = {"kind": "buffer", "g": spec, "tb": tb, "fb": fb, "tb2": tb2, "fb2": fb2}
    g = geoms.build(spec) if ctx.evaluations % 5 else geoms.build_derived(spec, ctx.rng)
    edge = _mech(spec, tb, fb)
    if tb < 0 or fb < 0:
        ctx.mon("buffer.rejection")
        try:
            O.buffer_geometry(g, time_buffer=tb, freq_buffer=fb)
            ctx.violate("rejects_negative", "rejects_negative", observed="returned", expected="ValueError", spec=sp)
        except ValueError:
            pass
        except Exception as e:
            ctx.violate_exc("rejects_negative", f"rejects_negative:wrong_exception:{type(e).__name__}", e, spec=sp)
        return
    if ctx.evaluations % 7 == 0 and spec["type"] not in ("TimeStamp", "TimeInterval", "BoundingBox") and tb > 0 and fb > 0:
        # some other caller in the same process forwards shapely options; that is its business only
        try:
            O.buffer_geometry(g, time_buffer=tb, freq_buffer=fb, **ctx.rng.choice([{"quad_segs": 1}, {"single_sided": True}, {"mitre_limit": 1.0}, {"cap_style": "flat"}]))
        except Exception:
            pass
    try:
        r1 = O.buffer_geometry(g, time_buffer=tb, freq_buffer=fb)
    except Exception as e:
        ctx.violate_exc("raises", _key(f"raises:{type(e).__name__}", edge), e, spec=sp)
        return
    try:
        again = O.buffer_geometry(g, time_buffer=tb, freq_buffer=fb)
        ctx.mon("repeat_call")
        if geoms.to_spec(again) != geoms.to_spec(r1) or geoms.to_spec(g) != geoms.to_spec(geoms.build(spec)):
            ctx.violate("repeat_call_differs", "repeat_call_differs", observed=geoms.to_spec(again), expected=geoms.to_spec(r1), spec=sp)
    except Exception as e:
        ctx.violate_exc("raises", f"raises_on_second_call:{type(e).__name__}", e, spec=sp)
        again = None
    if ctx.every(sp, 4):
        calling.agree(ctx, "buffer_geometry", _orig or O.buffer_geometry, dict(geometry=geoms.build(spec, how="dict"), time_buffer=tb, freq_buffer=fb), sp,
                      same=lambda x, y: geoms.to_spec(x) == geoms.to_spec(y),
                      variants={"numlike_buffers": {"time_buffer": calling.numlike(ctx.rng, tb), "freq_buffer": calling.numlike(ctx.rng, fb)}})
    if again is not None and ctx.every(sp, 3):
        # the caller owns what was returned: it edits it in place and buffers an equal, fresh geometry again
        want = geoms.to_spec(r1)
        try:
            if scribble.scribble(again):
                ctx.mon("repeat_after_result_edit")
                r3 = O.buffer_geometry(geoms.build(spec), time_buffer=tb, freq_buffer=fb)   # also judged by the wrapper
                if geoms.to_spec(r3) != want:
                    ctx.violate("repeat_call_differs", "repeat_call_differs:after_caller_edited_earlier_result", observed=geoms.to_spec(r3), expected=want, spec=sp)
        except Exception as e:
            ctx.violate_exc("raises", f"raises_after_result_edit:{type(e).__name__}", e, spec=sp)
    if ctx.evaluations % 4 == 0:
        try:
            gm = geoms.build(spec, how="dict")
            O.buffer_geometry(gm, time_buffer=tb, freq_buffer=fb)
            geoms.edit_in_place(gm, ctx.rng)
            if not (_mech(geoms.to_spec(gm), tb, fb)):
                O.buffer_geometry(gm, time_buffer=tb, freq_buffer=fb)   # judged by the wrapper against the current coordinates
        except Exception as e:
            if not _mech(geoms.to_spec(gm), tb, fb):
                ctx.violate_exc("raises", f"raises_after_in_place_edit:{type(e).__name__}", e, spec=sp)
    if tb2 is None or spec["type"] in ("TimeStamp", "TimeInterval", "BoundingBox"):
        if tb2 is not None:
            # closed-form types: monotone by exact widening (checked by the ambient monitor)
            try:
                O.buffer_geometry(g, time_buffer=tb2, freq_buffer=fb2)
            except Exception as e:
                ctx.violate_exc("raises", f"raises:{type(e).__name__}", e, spec=sp)
        return
    if 0 < tb < 1e-6 or 0 < fb < 1e-6 or not geoms.is_shapely_valid(g):
        return
    edge2 = _mech(spec, tb2, fb2)
    try:
        r2 = O.buffer_geometry(g, time_buffer=tb2, freq_buffer=fb2)
    except Exception as e:
        ctx.violate_exc("raises", _key(f"raises:{type(e).__name__}", edge2), e, spec=sp)
        return
    ctx.mon("buffer.monotone")
    try:
        ex = _excess(r1, r2, max(tb, tb2), max(fb, fb2))
    except Exception as e:
        ctx.note(f"monotone_check_error:{type(e).__name__}")
        return
    if ex > 0.006:
        key = "monotonicity"
        if edge or edge2:
            key = _key("monotonicity", edge or edge2)
        if key == "monotonicity" and _has_corner(spec) and ex <= MITRE_LIMIT + 0.5:
            # (a mitre spike is cut off at shapely's default mitre limit of 5 buffer units: a larger excess is something else)
            key += ":mitre_corner"
        ctx.violate("monotonicity", key, observed={"excess_in_buffer_units": ex}, expected="<= 0.006", spec=sp)


MITRE_LIMIT = 5.0
TB = [0.0, 1e-6, 0.001, 0.01, 0.1, 1.0, 30.0, 1e4]
FB = [0.0, 1e-6, 1.0, 100.0, 1000.0, 50000.0, 6e6]


def run(ctx):
    install()
    rng = ctx.rng
    ctx.rule = ("(geometry, time buffer, frequency buffer[, larger buffer pair]); all nine types, realistic / dyadic / domain-edge geometries, "
                "buffers from 0 to larger than the domain; non-trivial = at least one buffer > 0; distinct = distinct case spec")
    ctx.assumptions += ["valid, non-self-intersecting input geometries; default shapely buffer options",
                        "buffers in (0, 1e-6) excluded (below the code's degenerate-axis epsilon)",
                        "round caps are 32-gons and GEOS simplifies buffer input at 1 % of the distance: extents may fall 1.6 % of a buffer short; containment judged at 1e-6 buffer units; monotonicity at 0.006 buffer units"]
    ctx.must_monitors += ["buffer_geometry.post", "buffer.exact", "buffer.contains", "buffer.monotone", "buffer.rejection", "normal_form_walker", "concurrent_calls"]
    ctx.must_reach += ["geometry/operations.py::buffer_geometry", "?geometry/operations.py::buffer_shapely_geometry",
                       "?geometry/operations.py::buffer_timestamp", "?geometry/operations.py::buffer_interval",
                       "?geometry/operations.py::buffer_bounding_box_geometry"]

    # directed: negative buffers; the two open findings' witnesses
    for typ in geoms.TYPES:
        s = geoms.random_geom(rng, typ, "dyadic")
        for tb, fb in [(-0.1, 0.0), (0.0, -1.0), (-1e-9, -1e-9)]:
            ctx.case((typ, "negative"), {"g": s, "tb": tb, "fb": fb}, nontrivial=False)
            judge(ctx, s, tb, fb)
    tri = {"type": "Polygon", "coordinates": [[[24.41, 24228.0], [24.25, 23871.0], [25.98, 21883.0], [24.41, 24228.0]]]}
    ctx.case(("Polygon", "directed", "aspect_change"), {"g": tri, "tb": 0.01, "fb": 100.0, "tb2": 0.01, "fb2": 10000.0})
    judge(ctx, tri, 0.01, 100.0, 0.01, 10000.0)
    mp = {"type": "MultiPoint", "coordinates": [[0.0, 5.0], [1.0, MAXF]]}
    ctx.case(("MultiPoint", "directed", "zero_buffer_edge"), {"g": mp, "tb": 0.1, "fb": 0.0})
    judge(ctx, mp, 0.1, 0.0)

    # multi-part shapes with wide holes, buffered by a pair of buffers that straddles the merge of the parts (the smaller
    # result is a multi-polygon with a hole, the larger one a single polygon with the same, slightly narrower, hole)
    for t0 in (10.0, 0.0):
        for gap, k in ((1.0, 7.0), (0.5, 12.0)):
            fb2 = 100.0
            ring = lambda a, b, lo, hi: [[a, lo], [b, lo], [b, hi], [a, hi], [a, lo]]
            outer = ring(t0, t0 + 30.0, 1000.0, 3000.0)
            hole = ring(t0 + 2.0, t0 + 28.0, 1000.0 + (3000.0 - 1000.0 - 2 * (k + 1) * fb2) / 2, 3000.0 - (3000.0 - 1000.0 - 2 * (k + 1) * fb2) / 2)
            other = ring(t0 + 30.0 + gap, t0 + 31.0 + gap, 1000.0, 3000.0)
            for typ, co in (("MultiPolygon", [[outer, hole], [other]]), ("MultiLineString", [[[t0, 1000.0], [t0 + 30.0, 1000.0]], [[t0, 3000.0], [t0 + 30.0, 3000.0]], [[t0 + 30.0 + gap, 1000.0], [t0 + 31.0 + gap, 3000.0]]])):
                sp_ = {"type": typ, "coordinates": co}
                for tb1, fb1, tb2 in ((gap / 10, 10.0, gap), (0.0, 0.0, gap)) if typ == "MultiPolygon" else ((gap / 10, 10.0, gap),):
                    ctx.case((typ, "directed", "holes_across_merge"), {"g": sp_, "tb": tb1, "fb": fb1, "tb2": tb2, "fb2": fb2})
                    judge(ctx, sp_, tb1, fb1, tb2, fb2)
    # long contours (a pitch track sampled every few milliseconds: thousands of vertices)
    if ctx.shard == 0 or ctx.thorough:
        for nv in (2500, 4500):
            t0 = rng.choice([1.0, 30.0])
            pts = [[t0 + 0.004 * i * rng.choice([1, 1, 5]), 2000.0 + 800.0 * math.sin(i / 7.0) + rng.uniform(-20, 20)] for i in range(nv)]
            pts = sorted(pts)
            line = {"type": "LineString", "coordinates": pts}
            for tb, fb in ((0.0005, 5.0), (0.01, 100.0), (0.0, 0.0)):
                ctx.case(("LineString", "long_contour", nv), {"g": {"type": "LineString", "n_vertices": nv}, "tb": tb, "fb": fb})
                judge(ctx, line, tb, fb)
    # geometries on (or within a buffer of) each domain edge, buffered by ARBITRARY amounts -- whole numbers of Hz / ms,
    # decimals, values without a short binary expansion -- rather than the round values of the lists above
    ne = ctx.scale(80, 300)
    for typ in geoms.TYPES:
        for edge in ("time_0", "freq_0", "freq_max"):
            for i in range(ne):
                tb = rng.choice([float(rng.randint(1, 60)) / rng.choice([1, 10, 1000]), round(10 ** rng.uniform(-3, 1), 4), rng.uniform(0.001, 2.0)])
                fb = rng.choice([float(rng.randint(1, 199)), float(rng.randint(1, 199)), round(10 ** rng.uniform(0, 4), 1), rng.uniform(1.0, 5000.0)])
                w, h = rng.choice([0.05, 1.0, 7.5]), rng.choice([50.0, 1200.0, 30000.0])
                off = rng.choice([0.0, 0.0, rng.random()])        # exactly on the edge, or within one buffer of it
                if edge == "time_0":
                    t0 = off * tb; f0 = rng.uniform(0, 90000)
                elif edge == "freq_0":
                    t0 = rng.uniform(0, 60); f0 = off * fb
                else:
                    t0 = rng.uniform(0, 60); f0 = MAXF - off * fb - h
                s = geoms.geom_in_box(rng, typ, t0, t0 + w, f0, min(f0 + h, MAXF))
                ctx.case((typ, "on_edge:" + edge, "arbitrary_buffers", "exact" if off == 0 else "near"), {"g": s, "tb": tb, "fb": fb, "tb2": None, "fb2": None})
                judge(ctx, s, tb, fb)
    # features far thinner than the buffer (a pure tone drawn 2 mHz wide, a click 2 us long) buffered by the largest
    # buffers: extent / buffer down to 1e-10
    for typ in ("Polygon", "MultiPolygon", "LineString", "MultiLineString", "MultiPoint"):
        for _ in range(ctx.scale(8, 40)):
            thin_t = rng.random() < 0.5
            t0, f0 = rng.choice([0.0, 1.5, 30.0]), rng.choice([0.0, 2000.0, 4.0e6])
            w, h = (rng.choice([2e-6, 1e-7, 5e-5]), rng.choice([500.0, 20000.0])) if thin_t else (rng.choice([0.5, 3.0]), rng.choice([0.002, 1e-4, 0.05]))
            s_ = geoms.geom_in_box(rng, typ, t0, t0 + w, f0, min(f0 + h, MAXF))
            if typ == "MultiPolygon" and rng.random() < 0.5:
                # one thin member next to an ordinary one
                s_ = {"type": typ, "coordinates": s_["coordinates"][:1] + geoms.geom_in_box(rng, "MultiPolygon", t0 + 10.0, t0 + 12.0, 1000.0, 3000.0)["coordinates"][:1]}
            tb, fb = (rng.choice([1e4, 30.0, 5000.0]), rng.choice([100.0, 0.0, 1000.0])) if thin_t else (rng.choice([0.01, 0.0, 1.0]), rng.choice([6e6, float(MAXF), 50000.0]))
            ctx.case((typ, "thin_feature", "time" if thin_t else "frequency"), {"g": s_, "tb": tb, "fb": fb, "tb2": None, "fb2": None})
            judge(ctx, s_, tb, fb)
    # buffers beyond any recording: the time axis has no upper limit, so neither has a time buffer (4e9 s, 1e12 s)
    for typ in geoms.TYPES:
        for _ in range(ctx.scale(4, 20)):
            s_ = geoms.random_geom(rng, typ, rng.choice(["realistic", "dyadic", "edge"]))
            tb, fb = rng.choice([4e9, 1e12, 2.5e10]), rng.choice([100.0, 6e6, 0.0, 1000.0])
            tb2, fb2 = (tb * 4, fb) if rng.random() < 0.5 else (None, None)
            ctx.case((typ, "buffer_beyond_any_recording", "mono" if tb2 else "single"), {"g": s_, "tb": tb, "fb": fb, "tb2": tb2, "fb2": fb2})
            judge(ctx, s_, tb, fb, tb2, fb2)
    for _ in range(ctx.scale(6, 30)):
        run_concurrent(ctx, rng.getrandbits(32))
    n = ctx.scale(120, 900)
    for typ in geoms.TYPES:
        for i in range(n):
            style = ["realistic", "edge", "dyadic", "realistic", "late"][i % 5]
            if style == "late":
                # the time axis has no upper limit: months into a deployment, or epoch seconds
                late = rng.choice([6e6, 8.64e6] + ([1.7e9] if typ in ("TimeStamp", "TimeInterval", "BoundingBox") else []))
                s = geoms.shift_time(geoms.random_geom(rng, typ, "dyadic"), late)
            else:
                s = geoms.random_geom(rng, typ, style)
            tb, fb = rng.choice(TB), rng.choice(FB)
            mode = rng.choice(["single", "mono_prop", "mono_free", "mono_one_axis"])
            tb2 = fb2 = None
            if mode == "mono_prop" and tb > 0 and fb > 0:
                kx = rng.choice([1.0, 2.0, 5.0, 1.5])
                tb2, fb2 = tb * kx, fb * kx
            elif mode == "mono_free":
                tb2 = rng.choice([x for x in TB if x >= tb]); fb2 = rng.choice([x for x in FB if x >= fb])
            elif mode == "mono_one_axis":
                tb2, fb2 = tb, rng.choice([x for x in FB if x >= fb])
            bclass = ("t0" if tb == 0 else "t+") + ("f0" if fb == 0 else "f+")
            ctx.case((typ, style, bclass, mode), {"g": s, "tb": tb, "fb": fb, "tb2": tb2, "fb2": fb2}, nontrivial=(tb > 0 or fb > 0))
            judge(ctx, s, tb, fb, tb2, fb2)


def run_concurrent(ctx, seed, n=24):
    """A batch job buffering many geometries over a thread pool, each with its own buffers."""
    import random

    from soundevent.geometry import operations as O

    rng = random.Random(seed)
    orig = instrument.original(O.buffer_geometry)
    jobs = []
    for i in range(n):
        typ = rng.choice([t for t in geoms.TYPES])
        sp = geoms.random_geom(rng, typ, rng.choice(["realistic", "dyadic", "edge"]))
        tb, fb = rng.choice([0.001, 0.01, 0.05, 0.5, 2.0]), rng.choice([1.0, 10.0, 100.0, 1000.0, 20000.0])
        jobs.append((sp, tb, fb))
    spec = {"kind": "concurrent", "seed": seed, "n": n}
    ctx.case(("concurrent", "buffer_geometry"), spec)
    threads.concurrent_agree(ctx, "buffer_geometry",
                             [lambda sp=sp, tb=tb, fb=fb: orig(geoms.build(sp, how="dict"), time_buffer=tb, freq_buffer=fb) for sp, tb, fb in jobs],
                             geoms.to_spec, spec)


def replay(ctx, w):
    install()
    s = w["spec"]
    ctx.case("replay", s)
    if s.get("kind") == "concurrent":
        for _ in range(5):
            run_concurrent(ctx, s["seed"], s.get("n", 24))
        return
    judge(ctx, s["g"], s["tb"], s["fb"], s.get("tb2"), s.get("fb2"))
