"""C05 — bounds, geometric features and anchor points agree with the coordinates."""

from __future__ import annotations

import math

from rv.core import ctx as _ctx
from rv.core import instrument
from rv.core.tolerances import REAL_TOL
from rv.core import calling
from rv.gen import geoms

ANCHORS = ("geometry/conversion.py", "geometry/operations.py", "geometry/features.py")
THOROUGH_SHARDS = 10
AMBIENT_TESTS = ["tests/test_geometry", "tests/test_evaluation", "tests/test_plot"]
_installed = False

POSITIONS = ["bottom-left", "bottom-right", "top-left", "top-right", "center-left", "center-right",
             "top-center", "bottom-center", "center", "centroid", "point_on_surface"]
SHAPELY_KIND = {
    "TimeStamp": "LineString", "TimeInterval": "Polygon", "Point": "Point", "LineString": "LineString",
    "Polygon": "Polygon", "BoundingBox": "Polygon", "MultiPoint": "MultiPoint",
    "MultiLineString": "MultiLineString", "MultiPolygon": "MultiPolygon",
}
CONVERTERS = ["time_stamp_to_shapely", "time_interval_to_shapely", "point_to_shapely", "linestring_to_shapely",
              "polygon_to_shapely", "bounding_box_to_shapely", "multipoint_to_shapely",
              "multilinestring_to_shapely", "multipolygon_to_shapely"]
FEATURE_SETS = {
    "TimeStamp": ["duration"], "TimeInterval": ["duration"],
    **{t: ["duration", "low_freq", "high_freq", "bandwidth"] for t in ("BoundingBox", "Point", "LineString", "Polygon")},
    **{t: ["duration", "low_freq", "high_freq", "bandwidth", "num_segments"] for t in ("MultiPoint", "MultiLineString", "MultiPolygon")},
}


def _has_holes(spec):
    t, c = spec["type"], spec["coordinates"]
    if t == "Polygon":
        return len(c) > 1
    if t == "MultiPolygon":
        return any(len(p) > 1 for p in c)
    return False


def in_domain(geom, spec=None) -> bool:
    """Bounds over coordinates and GEOS's shell envelope can only differ for an
    invalid polygon whose hole pokes out of its shell."""
    spec = spec or geoms.to_spec(geom)
    if _has_holes(spec):
        return geoms.is_shapely_valid(geom)
    return True


def _eq(a, b):
    return len(a) == len(b) and all(float(x) == float(y) for x, y in zip(a, b))


def _post_compute_bounds(geometry, result):
    c = _ctx.CURRENT
    if c is None:
        return True
    spec = geoms.to_spec(geometry)
    if not in_domain(geometry, spec):
        c.ood("bounds:invalid_polygon_with_holes")
        return True
    c.mon("compute_bounds.post")
    want = geoms.ref_bounds(spec)
    if not _eq(tuple(result), want):
        c.violate("bounds:exact", f"bounds:exact:{spec['type']}", observed=list(result), expected=list(want), spec={"kind": "bounds", "g": spec})
    return True


def _shapely_points(s):
    import shapely

    return {tuple(map(float, p)) for p in shapely.get_coordinates(s).tolist()}


def _ref_points(spec):
    t, c = spec["type"], spec["coordinates"]
    M = float(geoms.MAXF)
    if t == "TimeStamp":
        return {(float(c), 0.0), (float(c), M)}
    if t == "TimeInterval":
        return {(float(c[0]), 0.0), (float(c[0]), M), (float(c[1]), 0.0), (float(c[1]), M)}
    if t == "BoundingBox":
        return {(float(c[0]), float(c[1])), (float(c[0]), float(c[3])), (float(c[2]), float(c[1])), (float(c[2]), float(c[3]))}
    return {(float(a), float(b)) for a, b in geoms.flat_points(spec)}


def _post_geometry_to_shapely(geom, result):
    c = _ctx.CURRENT
    if c is None:
        return True
    spec = geoms.to_spec(geom)
    c.mon("geometry_to_shapely.post")
    t = spec["type"]
    if result.geom_type != SHAPELY_KIND[t]:
        c.violate("conversion:kind", f"conversion:kind:{t}", observed=result.geom_type, expected=SHAPELY_KIND[t], spec={"kind": "convert", "g": spec})
        return True
    if _shapely_points(result) != _ref_points(spec):
        got, want = _shapely_points(result), _ref_points(spec)
        c.violate("conversion:coordinates", f"conversion:coordinates:{t}", observed=sorted(got - want)[:6], expected=sorted(want - got)[:6], spec={"kind": "convert", "g": spec})
        return True
    co = spec["coordinates"]
    if t == "Polygon" and len(result.interiors) != len(co) - 1:
        c.violate("conversion:holes", "conversion:holes:Polygon", observed=len(result.interiors), expected=len(co) - 1, spec={"kind": "convert", "g": spec})
    if t == "MultiPolygon":
        if len(result.geoms) != len(co) or [len(p.interiors) for p in result.geoms] != [len(p) - 1 for p in co]:
            c.violate("conversion:members", "conversion:members:MultiPolygon", observed=[len(p.interiors) for p in result.geoms], expected=[len(p) - 1 for p in co], spec={"kind": "convert", "g": spec})
    if t in ("MultiPoint", "MultiLineString") and len(result.geoms) != len(co):
        c.violate("conversion:members", f"conversion:members:{t}", observed=len(result.geoms), expected=len(co), spec={"kind": "convert", "g": spec})
    if t in ("LineString",) and [tuple(map(float, p)) for p in result.coords] != [tuple(map(float, p)) for p in co]:
        c.violate("conversion:order", "conversion:order:LineString", observed="vertex order changed", spec={"kind": "convert", "g": spec})
    return True


def _post_features(geometry, result):
    c = _ctx.CURRENT
    if c is None:
        return True
    from soundevent import terms

    spec = geoms.to_spec(geometry)
    if not in_domain(geometry, spec):
        c.ood("features:invalid_polygon_with_holes")
        return True
    c.mon("compute_geometric_features.post")
    t0, f0, t1, f1 = (float(x) for x in geoms.ref_bounds(spec))
    t = spec["type"]
    want = {"duration": t1 - t0, "low_freq": f0, "high_freq": f1, "bandwidth": f1 - f0}
    if t in ("MultiPoint", "MultiLineString", "MultiPolygon"):
        want["num_segments"] = float(len(spec["coordinates"]))
    want = {k: want[k] for k in FEATURE_SETS[t]}
    names = {getattr(terms, k).label: k for k in ("duration", "low_freq", "high_freq", "bandwidth", "num_segments")}
    got = {}
    for f in result:
        k = names.get(f.term.label, f.term.label)
        if k in got:
            c.violate("features:duplicate", f"features:duplicate:{t}", observed=k, spec={"kind": "features", "g": spec})
        got[k] = float(f.value)
    if got != want:
        bad = sorted(k for k in set(got) | set(want) if got.get(k) != want.get(k))
        c.violate("features:values", f"features:values:{t}:{'+'.join(bad)}", observed=got, expected=want, spec={"kind": "features", "g": spec})
    return True


def _post_point(geometry, position, result):
    c = _ctx.CURRENT
    if c is None:
        return True
    spec = geoms.to_spec(geometry)
    if position not in POSITIONS:
        return True
    if not in_domain(geometry, spec):
        c.ood("point:invalid_polygon_with_holes")
        return True
    t0, f0, t1, f1 = (float(x) for x in geoms.ref_bounds(spec))
    sp = {"kind": "point", "g": spec, "position": position}
    if position in ("centroid", "point_on_surface"):
        if not geoms.is_shapely_valid(geometry):
            c.ood("point:invalid_for_shapely")
            return True
        c.mon("get_geometry_point.post")
        x, y = float(result[0]), float(result[1])
        st, sf = max(abs(t1), 1.0), max(abs(f1), 1.0)
        if not (t0 - REAL_TOL * st <= x <= t1 + REAL_TOL * st and f0 - REAL_TOL * sf <= y <= f1 + REAL_TOL * sf) or math.isnan(x) or math.isnan(y):
            c.violate("point:inside_bounds", f"point:inside_bounds:{position}", observed=[x, y], expected=[t0, f0, t1, f1], spec=sp)
        return True
    c.mon("get_geometry_point.post")
    tm, fm = (t0 + t1) / 2, (f0 + f1) / 2
    if position == "center":
        want = (tm, fm)
    else:
        y, x = position.split("-")
        want = ({"left": t0, "center": tm, "right": t1}[x], {"bottom": f0, "center": fm, "top": f1}[y])
    if not _eq(tuple(result), want):
        c.violate("point:anchor", f"point:anchor:{position}", observed=list(result), expected=list(want), spec=sp)
    return True


def install(conversion=True):
    global _installed
    if _installed:
        return
    instrument.ensure("soundevent.geometry.operations", "compute_bounds", _post_compute_bounds)
    if conversion:
        instrument.ensure("soundevent.geometry.conversion", "geometry_to_shapely", _post_geometry_to_shapely)
    instrument.ensure("soundevent.geometry.features", "compute_geometric_features", _post_features)
    instrument.ensure("soundevent.geometry.operations", "get_geometry_point", _post_point)
    _installed = True


def judge(ctx, spec, positions=POSITIONS):
    import soundevent.geometry as G

    try:
        g = geoms.build(spec) if ctx.evaluations % 4 else geoms.build_derived(spec, ctx.rng)
    except Exception as e:
        ctx.note("generator_produced_invalid_geometry")
        return
    for name, fn, args in (("bounds", G.compute_bounds, ()), ("convert", G.geometry_to_shapely, ()), ("features", G.compute_geometric_features, ())):
        try:
            out = fn(g, *args)
            # a caller is free to edit what it got back; the next call (judged by the same monitor) must not care
            if isinstance(out, list):
                out.append(out[0] if out else None)
                del out[0]
                if out and hasattr(out[0], "value"):
                    try:
                        out[0].value = 12345.0
                    except Exception:
                        pass
            fn(g, *args)
        except Exception as e:
            ctx.violate_exc(f"{name}:raises", f"{name}:raises:{spec['type']}:{type(e).__name__}", e, spec={"kind": name, "g": spec})
    if ctx.evaluations % 3 == 0:
        try:
            geoms.edit_in_place(g, ctx.rng)
            spec = geoms.to_spec(g)
            ctx.mon("after_in_place_edit")
            G.compute_bounds(g); G.geometry_to_shapely(g); G.compute_geometric_features(g)
        except Exception as e:
            ctx.violate_exc("raises_after_edit", f"raises_after_in_place_edit:{spec['type']}:{type(e).__name__}", e, spec={"kind": "bounds", "g": spec})
    valid = geoms.is_shapely_valid(g)
    for p in positions:
        try:
            if ctx.every([spec, p], 6):
                calling.agree(ctx, "get_geometry_point", G.get_geometry_point, dict(geometry=g, position=p), {"kind": "point", "g": spec, "position": p})
            G.get_geometry_point(g, position=p)
        except Exception as e:
            if not valid and p in ("centroid", "point_on_surface"):
                ctx.ood("point:invalid_for_shapely")
                continue
            ctx.violate_exc("point:raises", f"point:raises:{p}:{type(e).__name__}", e, spec={"kind": "point", "g": spec, "position": p})
    try:
        G.get_geometry_point(g, position="middle")  # type: ignore[arg-type]
        ctx.violate("point:invalid_position_accepted", "point:invalid_position_accepted", observed="returned", expected="ValueError", spec={"kind": "point", "g": spec, "position": "middle"})
    except ValueError:
        pass
    except Exception as e:
        ctx.violate_exc("point:invalid_position", "point:invalid_position_wrong_exception", e, spec={"kind": "point", "g": spec, "position": "middle"})


def judge_with_siblings(ctx, spec):
    """The case, then -- in the same process, straight afterwards -- every regrouping of its coordinate stream."""
    judge(ctx, spec)
    for sib in geoms.regroupings(spec):
        ctx.mon("structural_siblings")
        b = geoms.ref_bounds(sib)
        ctx.case((sib["type"], "regrouped_sibling"), sib, nontrivial=(b[2] > b[0]))
        judge(ctx, sib)


def _degenerate(rng, typ):
    t = rng.choice([0.0, 1.5, 12.25]); f = rng.choice([0.0, 440.0, float(geoms.MAXF)])
    t2 = t + rng.choice([0.0, 2.0]); f2 = min(f + rng.choice([0.0, 1000.0]), float(geoms.MAXF))
    if typ == "TimeStamp":
        return {"type": typ, "coordinates": t}
    if typ == "TimeInterval":
        return {"type": typ, "coordinates": [t, t2]}
    if typ == "BoundingBox":
        return {"type": typ, "coordinates": [t, f, t2, f2]}
    if typ == "Point":
        return {"type": typ, "coordinates": [t, f]}
    if typ == "MultiPoint":
        return {"type": typ, "coordinates": [[t, f]] * rng.randint(1, 3) + [[t2, f2]]}
    if typ == "LineString":
        return {"type": typ, "coordinates": [[t, f], [t2, f2]] + ([[t2, f]] if rng.random() < 0.5 else [])}
    if typ == "MultiLineString":
        return {"type": typ, "coordinates": [[[t, f], [t + 1.0, f2]], [[t, f2], [t + 2.0, f2]]][: rng.randint(1, 2)]}
    if typ == "Polygon":
        return {"type": typ, "coordinates": [[[t, f], [t2, f], [t2, f2], [t, f]]]}
    return {"type": typ, "coordinates": [[[[t, f], [t2, f], [t2, f2], [t, f]]], [[[t + 5, f], [t + 6, f], [t + 6, f2], [t + 5, f]]]]}


def run(ctx):
    install()
    rng = ctx.rng
    from rv.props import concurrent_jobs

    concurrent_jobs.run_some(ctx, "C05")        # the same calls from a thread pool (rv/core/threads.py)
    ctx.must_monitors.append("concurrent_calls")
    ctx.rule = ("geometry specs of all nine types (realistic, dyadic, domain-edge, degenerate); every named position per geometry; "
                "non-trivial = non-zero extent on at least one axis; distinct = distinct geometry spec")
    ctx.assumptions += ["bounds / features / anchors judged for every geometry except invalid polygons whose holes leave the shell",
                        "centroid and point_on_surface judged only for shapely-valid geometries (tolerance 1e-9 relative)"]
    ctx.must_monitors += ["compute_bounds.post", "geometry_to_shapely.post", "compute_geometric_features.post", "get_geometry_point.post"]
    ctx.must_reach += [f"?geometry/conversion.py::{c}" for c in CONVERTERS] + ["geometry/conversion.py::geometry_to_shapely"] + [
        "geometry/operations.py::compute_bounds", "geometry/operations.py::get_geometry_point",
        "geometry/features.py::compute_geometric_features"] + [
        f"geometry/features.py::_compute_{n}_features" for n in ("time_stamp", "time_interval", "bounding_box", "point", "line_string", "polygon", "multi_point", "multi_linestring", "multi_polygon")]
    n = ctx.scale(60, 400)
    for typ in geoms.TYPES:
        for i in range(n):
            style = ["realistic", "dyadic", "edge", "degenerate", "tiny_far"][i % 5]
            if style == "tiny_far":
                # a few samples long / a fraction of a hertz wide, hours into a recording or high up the band: the extent is
                # many orders of magnitude smaller than the coordinates themselves, and still not zero
                t0 = rng.choice([10800.0, 3600.5, 86399.0]) + rng.randrange(0, 1 << 20) / (1 << 20)
                f0 = rng.choice([40000.0, 191999.0, 4999990.0]) + rng.randrange(0, 1 << 10) / (1 << 10)
                spec = geoms.geom_in_box(rng, typ, t0, t0 + rng.choice([2.0 ** -18, 1 / 384000, 3e-9 * t0]), f0, min(f0 + rng.choice([2.0 ** -15, 3e-5, 2e-9 * f0]), float(geoms.MAXF)))
            else:
                spec = _degenerate(rng, typ) if style == "degenerate" else geoms.random_geom(rng, typ, style)
            b = geoms.ref_bounds(spec)
            ctx.case((typ, style), spec, nontrivial=(b[2] > b[0] or (b[3] > b[1] and typ not in geoms.TIME_ONLY)))
            judge_with_siblings(ctx, spec)
    # reversed / unordered inputs are normalised before anything is computed
    for _ in range(ctx.scale(30, 200)):
        t0, t1, f0, f1 = geoms.random_box(rng, "realistic")
        spec = {"type": "BoundingBox", "coordinates": [t1, f1, t0, f0]}
        ctx.case(("BoundingBox", "reversed"), spec)
        judge(ctx, spec)
        line = geoms.line_in_box(rng, t0, t1, f0, f1)[::-1]
        spec = {"type": "LineString", "coordinates": line}
        ctx.case(("LineString", "reversed"), spec)
        judge(ctx, spec)


def replay(ctx, w):
    install()
    s = w["spec"]
    ctx.case("replay", s)
    for other in geoms.regroupings(s["g"]):     # the witness may be the second of two related geometries
        for sib in [other] + geoms.regroupings(other):
            if sib != s["g"]:
                judge(ctx, sib)
    judge(ctx, s["g"], positions=[s["position"]] if "position" in s and s["position"] in POSITIONS else POSITIONS)
