"""C12 — overlap predicates agree with exact interval arithmetic."""

from __future__ import annotations

import itertools
import math

import numpy as np
from fractions import Fraction as F

from rv.core import calling, instrument
from rv.core import ctx as _ctx
from rv.core.tolerances import ULP_BAND_REL
from rv.gen import geoms

ANCHORS = ("geometry/operations.py",)
THOROUGH_SHARDS = 12
AMBIENT_TESTS = ["tests/test_geometry"]

_installed = False
_suspend = 0  # >0 while the monitor's own re-invocations run


def _finite(*xs):
    """Real numbers of the kinds interval bounds come in: floats, ints of any size (nanosecond timestamps), Fractions."""
    for x in xs:
        if isinstance(x, bool):
            return False
        if isinstance(x, (int, F)):
            continue
        if not isinstance(x, (float, np.floating, np.integer)) or not math.isfinite(x):
            return False
    return True


def model_intervals(i1, i2, abs_=None, rel=None):
    """Exact model. Returns (verdict, margin_is_ambiguous)."""
    s1, e1, s2, e2 = (F(x) for x in (*i1, *i2))
    inter = min(e1, e2) - max(s1, s2)
    thr = F(0)
    if abs_ is not None:
        thr = F(abs_)
    if rel is not None:
        thr = F(rel) * min(e1 - s1, e2 - s2)
    scale = max(abs(x) for x in (s1, e1, s2, e2, thr, 1))
    ambiguous = abs(inter - thr) <= F(ULP_BAND_REL) * scale and inter != thr
    if ambiguous and rel is None and all(isinstance(x, (int, F)) and not isinstance(x, bool) for x in (*i1, *i2)) and (abs_ is None or (isinstance(abs_, (int, F)) and not isinstance(abs_, bool))):
        ambiguous = False      # exact number types in, exact max / min / subtract / compare: nothing is rounded
    # the band exists because a float implementation rounds; when every intermediate quantity (widths, threshold,
    # intersection) is itself a double, nothing is rounded and a miss of >= 2**-44 (relative) is decided
    if ambiguous and _representable(e1 - s1, e2 - s2, thr, inter, min(e1, e2), max(s1, s2)) and abs(inter - thr) >= F(1, 2 ** 44) * scale:
        ambiguous = False
    # an exactly-equal case is decided (true) only if the float computation is exact;
    # callers that use dyadic inputs get exactness, others treat equality as ambiguous
    return (inter >= 0 and inter >= thr), ambiguous, inter == thr


def _representable(*fracs):
    try:
        return all(F(float(x)) == x for x in fracs)
    except OverflowError:
        return False


def _dyadic(*xs):
    for x in xs:
        if x is None:
            continue
        fr = F(x)
        d = fr.denominator
        if d & (d - 1) or d > 2 ** 20 or abs(fr) > 2 ** 30:
            return False
    return True


def _post_intervals_overlap(interval1, interval2, min_absolute_overlap, min_relative_overlap, result):
    c = _ctx.CURRENT
    if c is None:
        return True
    i1, i2 = tuple(interval1), tuple(interval2)
    a, r = min_absolute_overlap, min_relative_overlap
    if not (len(i1) == 2 and len(i2) == 2 and _finite(*i1, *i2)) or i1[0] > i1[1] or i2[0] > i2[1]:
        c.ood("intervals_overlap:not_an_interval")
        return True
    if (a is not None and (not _finite(a) or a < 0)) or (r is not None and not _finite(r)):
        c.ood("intervals_overlap:threshold")
        return True
    c.mon("intervals_overlap.post")
    want, amb, eq = model_intervals(i1, i2, a, r)
    if amb or (eq and r is not None and not _dyadic(*i1, *i2, a, r)):
        c.dc("intervals_overlap:ulp_band")
        return True
    if bool(result) != want or not isinstance(result, (bool,)) and type(result).__name__ != "bool_":
        spec = {"kind": "intervals", "i1": i1, "i2": i2, "abs": a, "rel": r}
        if bool(result) != want:
            c.violate("intervals_overlap:model", "intervals_overlap:model", observed=result, expected=want, spec=spec)
    return True


def _bounds_of(g):
    return geoms.ref_bounds(geoms.to_spec(g))


def _post_temporal(geom1, geom2, min_absolute_overlap, min_relative_overlap, result):
    _post_axis("temporal", 0, geom1, geom2, min_absolute_overlap, min_relative_overlap, result)
    return True


def _post_frequency(geom1, geom2, min_absolute_overlap, min_relative_overlap, result):
    _post_axis("frequency", 1, geom1, geom2, min_absolute_overlap, min_relative_overlap, result)
    return True


def _post_axis(name, ax, g1, g2, a, r, result):
    c = _ctx.CURRENT
    if c is None:
        return
    if a is not None and r is None and _finite(a) and a < 0 and geoms.is_shapely_valid(g1) and geoms.is_shapely_valid(g2):
        # a negative absolute minimum is outside the stated meaning of intervals_overlap (no model), but the library accepts it and the
        # clause "the wrappers equal that predicate on the extents" is still decidable: ask the library's own predicate on the reference extents
        from soundevent.geometry import operations as G
        b1, b2 = _bounds_of(g1), _bounds_of(g2)
        i1, i2 = (b1[ax], b1[ax + 2]), (b2[ax], b2[ax + 2])
        gap = max(i1[0], i2[0]) - min(i1[1], i2[1])
        if abs(gap + a) > ULP_BAND_REL * max(abs(x) for x in (*i1, *i2, a, 1)) or _dyadic(*i1, *i2, a):
            c.mon(f"have_{name}_overlap.equals_predicate_negative_threshold")
            want = bool(instrument.original(G.intervals_overlap)(i1, i2, min_absolute_overlap=a))
            if bool(result) != want:
                c.violate(f"{name}:equals_predicate:negative_threshold", f"{name}:equals_predicate:negative_threshold", observed=result, expected=want,
                          spec={"kind": name, "g1": geoms.to_spec(g1), "g2": geoms.to_spec(g2), "abs": a, "rel": r})
        return
    if (a is not None and (not _finite(a) or a < 0)) or (r is not None and not _finite(r)):
        c.ood(f"{name}:threshold")
        return
    if not (geoms.is_shapely_valid(g1) and geoms.is_shapely_valid(g2)):
        c.ood(f"{name}:invalid_geometry")
        return
    b1, b2 = _bounds_of(g1), _bounds_of(g2)
    i1, i2 = (b1[ax], b1[ax + 2]), (b2[ax], b2[ax + 2])
    c.mon(f"have_{name}_overlap.post")
    want, amb, eq = model_intervals(i1, i2, a, r)
    if amb or (eq and r is not None and not _dyadic(*i1, *i2, a, r)):
        c.dc(f"{name}:ulp_band")
        return
    if bool(result) != want:
        c.violate(
            f"{name}:model", f"{name}:model", observed=result, expected=want,
            spec={"kind": name, "g1": geoms.to_spec(g1), "g2": geoms.to_spec(g2), "abs": a, "rel": r},
        )


def model_in_clip(b, cs, ce, m):
    s, e = F(b[0]), F(b[2])
    lo, hi = F(cs) + F(m), F(ce) - F(m)
    scale = max(abs(x) for x in (s, e, lo, hi, 1))
    band = F(ULP_BAND_REL) * scale
    amb = (abs(e - lo) <= band and e != lo) or (abs(s - hi) <= band and s != hi)
    if amb and _representable(lo, hi, e - lo, hi - s) and all(x == 0 or abs(x) >= F(1, 2 ** 44) * scale for x in (e - lo, s - hi)):
        amb = False
    eq = e == lo or s == hi
    return (e > lo and s < hi), amb, eq


def _post_is_in_clip(geometry, clip, minimum_overlap, result):
    c = _ctx.CURRENT
    if c is None:
        return True
    if not _finite(minimum_overlap) or minimum_overlap < 0 or not geoms.is_shapely_valid(geometry):
        c.ood("is_in_clip:domain")
        return True
    b = _bounds_of(geometry)
    c.mon("is_in_clip.post")
    want, amb, eq = model_in_clip(b, clip.start_time, clip.end_time, minimum_overlap)
    if amb or (eq and not _dyadic(b[0], b[2], clip.start_time, clip.end_time, minimum_overlap)):
        c.dc("is_in_clip:ulp_band")
        return True
    if bool(result) != want:
        c.violate(
            "is_in_clip:model", "is_in_clip:model", observed=result, expected=want,
            spec={"kind": "in_clip", "g": geoms.to_spec(geometry), "clip": [clip.start_time, clip.end_time], "m": minimum_overlap},
        )
    return True


def install():
    global _installed
    if _installed:
        return
    instrument.ensure("soundevent.geometry.operations", "intervals_overlap", _post_intervals_overlap)
    instrument.ensure("soundevent.geometry.operations", "have_temporal_overlap", _post_temporal)
    instrument.ensure("soundevent.geometry.operations", "have_frequency_overlap", _post_frequency)
    instrument.ensure("soundevent.geometry.operations", "is_in_clip", _post_is_in_clip)
    _installed = True


# --------------------------------------------------------------- the workload
def _call(ctx, fn, *a, **k):
    try:
        return "ok", fn(*a, **k)
    except ValueError as e:
        return "ValueError", str(e)
    except Exception as e:  # any other exception where a result is promised
        ctx.violate_exc("unexpected_exception", f"{fn.__name__}:unexpected_exception:{type(e).__name__}", e)
        return "exc", None


def judge_intervals(ctx, i1, i2, a, r):
    """One interval case: model (via the ambient monitor), symmetry, monotonicity."""
    from soundevent.geometry import operations as G

    kw = {}
    if a is not None:
        kw["min_absolute_overlap"] = a
    if r is not None:
        kw["min_relative_overlap"] = r
    st, v = _call(ctx, G.intervals_overlap, tuple(i1), tuple(i2), **kw)
    spec = {"kind": "intervals", "i1": list(i1), "i2": list(i2), "abs": a, "rel": r}
    if ctx.every(spec, 3):
        calling.agree(ctx, "intervals_overlap", instrument.original(G.intervals_overlap), dict(interval1=tuple(i1), interval2=tuple(i2), **kw), spec,
                      same=lambda x, y: bool(x) == bool(y), variants={"numlike_thresholds": {k: calling.numlike(ctx.rng, v_) for k, v_ in kw.items()}} if kw else None)
    if ctx.every(spec, 4) and all(isinstance(x, float) for x in (*i1, *i2)):
        # an interval is a pair: handed over as a list or an array it is the same interval
        stc, vc = _call(ctx, G.intervals_overlap, list(i1), np.array(i2, dtype=float), **kw)
        ctx.mon("intervals_overlap.containers")
        if stc != st or (st == "ok" and bool(vc) != bool(v)):
            ctx.violate("intervals_overlap:containers", "intervals_overlap:containers", observed=[stc, str(vc)], expected=[st, str(v)], spec=spec)
    must_reject = (a is not None and r is not None) or (r is not None and not (0 <= r <= 1))
    ctx.mon("intervals_overlap.rejection")
    if must_reject:
        if st != "ValueError":
            ctx.violate("intervals_overlap:rejects", "intervals_overlap:rejects", observed=[st, v], expected="ValueError", spec=spec)
        return
    if st != "ok":
        if st == "ValueError":
            ctx.violate("intervals_overlap:spurious_rejection", "intervals_overlap:spurious_rejection", observed=v, expected="bool", spec=spec)
        return
    st2, v2 = _call(ctx, G.intervals_overlap, tuple(i2), tuple(i1), **kw)
    ctx.mon("intervals_overlap.symmetry")
    if st2 == "ok" and bool(v2) != bool(v):
        ctx.violate("intervals_overlap:symmetry", "intervals_overlap:symmetry", observed=[v, v2], expected="equal", spec=spec)
    # monotone: halving / zeroing the threshold never turns True into False
    if v and (a or r):
        for kw2 in ([{"min_absolute_overlap": a / 2}, {"min_absolute_overlap": 0.0}, {}] if a else
                    [{"min_relative_overlap": r / 2}, {"min_relative_overlap": 0.0}, {}]):
            st3, v3 = _call(ctx, G.intervals_overlap, tuple(i1), tuple(i2), **kw2)
            ctx.mon("intervals_overlap.monotone")
            if st3 == "ok" and not v3:
                ctx.violate("intervals_overlap:monotone", "intervals_overlap:monotone", observed={"thr": kw, "smaller": kw2, "v": [v, v3]}, expected="true stays true", spec=spec)


def _grid_intervals(step_den, hi):
    vals = [F(k, step_den) for k in range(0, hi * step_den + 1)]
    return [(float(a), float(b)) for a, b in itertools.combinations_with_replacement(vals, 2)]


def _classify(i1, i2):
    (s1, e1), (s2, e2) = i1, i2
    if i1 == i2:
        k = "equal"
    elif e1 < s2 or e2 < s1:
        k = "disjoint"
    elif e1 == s2 or e2 == s1:
        k = "touching"
    elif (s1 <= s2 and e2 <= e1) or (s2 <= s1 and e1 <= e2):
        k = "nested"
    else:
        k = "partial"
    if s1 == e1 or s2 == e2:
        k += "+degenerate"
    return k


def _mk_clip(start, end):
    from soundevent import data

    # the predicate is about the clip's time extent only; what else the recording says (time expansion of a bat
    # detector, sample rate, duration, channels, coordinates) varies from call to call and must not matter
    _mk_clip.n = getattr(_mk_clip, "n", 0) + 1
    kw = [dict(duration=100.0, channels=1, samplerate=8000), dict(duration=100.0, channels=1, samplerate=8000, time_expansion=10.0),
          dict(duration=3.5, channels=2, samplerate=384000, time_expansion=0.5), dict(duration=86400.0, channels=4, samplerate=250, latitude=-12.5, longitude=130.0),
          dict(duration=100.0, channels=1, samplerate=44100, time_expansion=8.0)][_mk_clip.n % 5]
    rec = data.Recording(path="a.wav", **kw)
    return data.Clip(recording=rec, start_time=start, end_time=end)


def judge_in_clip(ctx, gspec, cs, ce, m):
    from soundevent.geometry import operations as G

    g = geoms.build(gspec) if ctx.evaluations % 4 else geoms.build_derived(gspec, ctx.rng)
    clip = _mk_clip(cs, ce)
    st, v = _call(ctx, G.is_in_clip, g, clip, m)
    if ctx.every({"g": gspec, "c": [cs, ce], "m": m}, 3):
        calling.agree(ctx, "is_in_clip", instrument.original(G.is_in_clip), dict(geometry=g, clip=clip, minimum_overlap=m), {"kind": "in_clip", "g": gspec, "clip": [cs, ce], "m": m},
                      same=lambda x, y: bool(x) == bool(y), variants={"numlike_minimum": {"minimum_overlap": calling.numlike(ctx.rng, m)}})
    if m >= 0 and ctx.evaluations % 3 == 0:
        geoms.edit_in_place(g, ctx.rng)
        _call(ctx, G.is_in_clip, g, clip, m)
    spec = {"kind": "in_clip", "g": gspec, "clip": [cs, ce], "m": m}
    ctx.mon("is_in_clip.rejection")
    if m < 0:
        if st != "ValueError":
            ctx.violate("is_in_clip:rejects", "is_in_clip:rejects", observed=[st, v], expected="ValueError", spec=spec)
    elif st == "ValueError":
        ctx.violate("is_in_clip:spurious_rejection", "is_in_clip:spurious_rejection", observed=v, expected="bool", spec=spec)


def judge_geoms(ctx, axis, s1, s2, a, r, same_object=False):
    from soundevent.geometry import operations as G

    fn = G.have_temporal_overlap if axis == "temporal" else G.have_frequency_overlap
    g1, g2 = geoms.build(s1), geoms.build(s2)
    if ctx.evaluations % 4 == 0:
        g1, g2 = geoms.build_derived(s1, ctx.rng), geoms.build_derived(s2, ctx.rng)
    if same_object:
        g2 = g1                 # a geometry compared with itself (the very same object)
    kw = {}
    if a is not None:
        kw["min_absolute_overlap"] = a
    if r is not None:
        kw["min_relative_overlap"] = r
    st, v = _call(ctx, fn, g1, g2, **kw)
    st2, v2 = _call(ctx, fn, g2, g1, **kw)
    if ctx.every({"g1": s1, "g2": s2, "a": a, "r": r, "axis": axis}, 3):
        # the same question asked positionally in the documented order, and with numpy / int thresholds
        name = "have_temporal_overlap" if axis == "temporal" else "have_frequency_overlap"
        full = dict(geom1=g1, geom2=g2, **kw)
        calling.agree(ctx, name, instrument.original(fn), full, {"kind": axis, "g1": s1, "g2": s2, "abs": a, "rel": r}, same=lambda x, y: bool(x) == bool(y),
                      variants={"numlike_thresholds": {k: calling.numlike(ctx.rng, v_) for k, v_ in kw.items()}} if kw else None)
    if ctx.evaluations % 3 == 0:
        # one of the two geometries is dragged somewhere else in place; the predicate is asked again
        geoms.edit_in_place(g1, ctx.rng)
        _call(ctx, fn, g1, g2, **kw)
        _call(ctx, fn, g2, g1, **kw)
    spec = {"kind": axis, "g1": s1, "g2": s2, "abs": a, "rel": r}
    must_reject = (a is not None and r is not None) or (r is not None and not (0 <= r <= 1))
    ctx.mon(f"{axis}.relational")
    if must_reject:
        if st != "ValueError":
            ctx.violate(f"{axis}:rejects", f"{axis}:rejects", observed=[st, v], expected="ValueError", spec=spec)
        return
    if st == "ok" and st2 == "ok" and bool(v) != bool(v2):
        ctx.violate(f"{axis}:symmetry", f"{axis}:symmetry", observed=[v, v2], expected="equal", spec=spec)


def run(ctx):
    install()
    rng = ctx.rng
    from rv.props import concurrent_jobs

    concurrent_jobs.run_some(ctx, "C12")        # the same calls from a thread pool (rv/core/threads.py)
    ctx.must_monitors.append("concurrent_calls")
    ctx.rule = (
        "interval / geometry / clip placements; directed + exhaustive dyadic grid + random floats; "
        "non-trivial = the two intervals (extents) are not identical; distinct = distinct case spec"
    )
    ctx.assumptions += [
        "intervals have start <= stop and finite endpoints; thresholds >= 0",
        "random non-dyadic cases within 1e-12 (relative) of a decision boundary are don't-care",
        "geometry extents come from an independent flatten of the coordinates (C05 reference)",
    ]
    ctx.must_monitors += [
        "intervals_overlap.post", "have_temporal_overlap.post", "have_frequency_overlap.post",
        "is_in_clip.post", "intervals_overlap.symmetry", "intervals_overlap.monotone",
        "intervals_overlap.rejection", "is_in_clip.rejection",
    ]
    ctx.must_reach += [
        "geometry/operations.py::intervals_overlap", "geometry/operations.py::is_in_clip",
        "geometry/operations.py::have_temporal_overlap", "geometry/operations.py::have_frequency_overlap",
    ]

    # ---- directed: rejections
    for a, r in [(0.5, 0.5), (0.0, 0.0), (None, -0.25), (None, 1.25), (None, 2.0), (1.0, 1.0)]:
        ctx.case(("intervals", "reject"), {"kind": "intervals", "i1": [0, 1], "i2": [0.5, 2], "abs": a, "rel": r})
        judge_intervals(ctx, (0.0, 1.0), (0.5, 2.0), a, r)

    # ---- exhaustive dyadic grid
    if ctx.thorough:
        ivs = _grid_intervals(4, 4)   # 153 intervals, multiples of 1/4 in [0, 4]
        abss = [k / 8 for k in range(0, 33)]
        rels = [k / 8 for k in range(0, 9)]
        ctx.exhaustive_subspaces.append("intervals: endpoints k/4 in [0,4] (153^2 ordered pairs) x {none, abs k/8 in [0,4], rel k/8 in [0,1]}")
    else:
        ivs = _grid_intervals(2, 3)   # 28 intervals, multiples of 1/2 in [0, 3]
        abss = [0.0, 0.125, 0.25, 0.5, 1.0, 1.5, 2.0, 5.0]
        rels = [0.0, 0.125, 0.25, 0.5, 0.75, 1.0]
        ctx.exhaustive_subspaces.append("intervals: endpoints k/2 in [0,3] (28^2 ordered pairs) x {none, 8 abs, 6 rel thresholds}")
    pairs = [(a, b) for a in ivs for b in ivs]
    for idx, (i1, i2) in enumerate(pairs):
        if idx % ctx.nshards != ctx.shard:
            continue
        cls = _classify(i1, i2)
        for a, r in [(None, None)] + [(x, None) for x in abss] + [(None, x) for x in rels]:
            ctx.case(("intervals", "grid", cls, "abs" if a is not None else "rel" if r is not None else "none"),
                     {"kind": "intervals", "i1": i1, "i2": i2, "abs": a, "rel": r}, nontrivial=i1 != i2)
            judge_intervals(ctx, i1, i2, a, r)

    # ---- random floats (ulp band)
    for _ in range(ctx.scale(3000, 30000)):
        style = rng.choice(["free", "touch", "nest", "decimal"])
        if style == "decimal":
            s1 = round(rng.uniform(0, 10), 1); e1 = round(s1 + rng.choice([0, 0.1, 0.3, 0.7, 1.1]), 1)
            s2 = round(rng.choice([e1, s1, rng.uniform(0, 10)]), 1); e2 = round(s2 + rng.choice([0, 0.1, 0.2, 0.9]), 1)
        else:
            s1 = rng.uniform(0, 100); e1 = s1 + rng.choice([0.0, rng.uniform(0, 1), rng.uniform(0, 50)])
            if style == "touch":
                s2 = e1; e2 = s2 + rng.uniform(0, 5)
            elif style == "nest":
                s2 = s1 + rng.random() * (e1 - s1); e2 = s2 + rng.random() * (e1 - s2)
            else:
                s2 = rng.uniform(0, 100); e2 = s2 + rng.uniform(0, 50)
        mode = rng.choice(["none", "abs", "rel", "both", "badrel"])
        a = r = None
        if mode == "abs":
            a = rng.choice([0.0, 0.1, rng.uniform(0, 5), max(0.0, min(e1, e2) - max(s1, s2))])
        elif mode == "rel":
            r = rng.choice([0.0, 1.0, 0.1, 0.5, rng.random()])
        elif mode == "both":
            a, r = rng.random(), rng.random()
        elif mode == "badrel":
            r = rng.choice([-0.1, 1.0000001, 3.0, -1e-9])
        i1, i2 = (s1, e1), (s2, e2)
        if rng.random() < 0.5:
            i1, i2 = i2, i1
        ctx.case(("intervals", "random", style, mode, _classify(i1, i2)),
                 {"kind": "intervals", "i1": i1, "i2": i2, "abs": a, "rel": r}, nontrivial=i1 != i2)
        judge_intervals(ctx, i1, i2, a, r)

    # ---- near misses with exact arithmetic: the intersection is the threshold -/+ 2**-k with every quantity a double,
    # so "at least the threshold" has one right answer however the comparison is coded
    for _ in range(ctx.scale(1500, 8000)):
        w1, w2 = rng.choice([0.5, 1.0, 1.5, 2.0, 4.0]), rng.choice([0.5, 1.0, 1.5, 2.0, 4.0])
        mode = rng.choice(["none", "abs", "rel", "rel"])
        a = r = None
        if mode == "abs":
            a = thr = rng.choice([0.125, 0.25, 0.5])
        elif mode == "rel":
            r = rng.choice([0.125, 0.25, 0.5, 0.75, 1.0]); thr = r * min(w1, w2)
        else:
            thr = 0.0
        d = rng.choice([-1, 1, 0]) * 2.0 ** -rng.choice([20, 30, 32, 34, 36, 40, 43])
        L = thr + d
        if L > min(w1, w2):
            L = thr - abs(d)
        s1 = rng.choice([0.0, 1.0, 2.5])
        i1 = (s1, s1 + w1); i2 = (s1 + w1 - L, s1 + w1 - L + w2)
        if i2[0] < 0:
            continue
        if rng.random() < 0.5:
            i1, i2 = i2, i1
        ctx.case(("intervals", "near_miss_exact", mode, "short" if d < 0 else "over" if d > 0 else "equal"),
                 {"kind": "intervals", "i1": list(i1), "i2": list(i2), "abs": a, "rel": r}, nontrivial=True)
        judge_intervals(ctx, i1, i2, a, r)
    # ---- exact number types: integer nanosecond timestamps (beyond 2**53, where floats are 256 apart) and Fractions;
    # the predicate only needs max / min / subtract / compare, all of which are exact for them
    for _ in range(ctx.scale(600, 3000)):
        kind = rng.choice(["ns_int", "ns_int", "fraction"])
        if kind == "ns_int":
            T0 = rng.choice([1_700_000_000_000_000_000, 2 ** 60 + 12345, 9_007_199_254_740_993])
            a0 = T0 + rng.randrange(0, 1000); a1 = a0 + rng.randrange(0, 400)
            b0 = a0 + rng.randrange(-300, 500); b1 = b0 + rng.randrange(0, 400)
            i1, i2 = (a0, a1), (b0, b1)
            a = rng.choice([None, None, 0, 1, 50, 100, 101, rng.randrange(0, 300)])
            r = None if a is not None else rng.choice([None, 0.25, 0.5, 1.0])
        else:
            q = F(1, 10 ** 20)
            a0 = F(rng.randrange(0, 100), 7); a1 = a0 + rng.randrange(0, 5) * q + F(rng.randrange(0, 3), 3)
            b0 = a1 + rng.choice([-2, -1, 0, 1, 2]) * q; b1 = b0 + F(rng.randrange(0, 3), 3)
            i1, i2 = (a0, a1), (b0, b1)
            a = rng.choice([None, None, q, 2 * q, F(1, 3)])
            r = None
        if rng.random() < 0.5:
            i1, i2 = i2, i1
        ctx.case(("intervals", "exact_types", kind, "abs" if a is not None else "rel" if r is not None else "none"),
                 {"kind": "intervals", "i1": [str(x) for x in i1], "i2": [str(x) for x in i2], "abs": None if a is None else str(a), "rel": r, "types": kind}, nontrivial=True)
        judge_intervals(ctx, i1, i2, a, r)
    for typ in geoms.TYPES:
        for _ in range(ctx.scale(40, 200)):
            cs = rng.choice([0.0, 1.0, 2.5]); ce = cs + rng.choice([1.0, 2.0, 4.0])
            m = rng.choice([0.0, 0.25, 0.5])
            d = rng.choice([-1, 1, 0]) * 2.0 ** -rng.choice([20, 30, 32, 36, 40, 43])
            if rng.random() < 0.5:
                b = cs + m + d; a = max(b - 0.5, 0.0)            # ends just around (clip start + minimum)
            else:
                a = ce - m + d; b = a + 0.5                       # starts just around (clip end - minimum)
            if not (b > a >= 0):
                continue
            gs = geoms.geom_in_box(rng, typ, a, b, 1000.0, 5000.0)
            ctx.case(("in_clip", typ, "near_miss_exact", "short" if d < 0 else "over" if d > 0 else "equal"), {"kind": "in_clip", "g": gs, "clip": [cs, ce], "m": m})
            judge_in_clip(ctx, gs, cs, ce, m)

    # ---- geometry predicates, all type pairs
    type_pairs = list(itertools.product(geoms.TYPES, repeat=2))
    reps = ctx.scale(4, 12)
    for rep in range(reps):
        for t1, t2 in type_pairs:
            style = rng.choice(["dyadic", "dyadic", "realistic", "edge"])
            b1 = geoms.random_box(rng, style)
            place = rng.choice(["free", "touch_t", "touch_f", "same", "nested"])
            if place == "free":
                b2 = geoms.random_box(rng, style)
            elif place == "touch_t":
                b2 = (b1[1], b1[1] + (b1[1] - b1[0]), b1[2], b1[3])
            elif place == "touch_f" and b1[3] < geoms.MAXF:
                b2 = (b1[0], b1[1], b1[3], min(b1[3] + (b1[3] - b1[2]), geoms.MAXF))
                if not b2[3] > b2[2]:
                    b2 = b1
            elif place == "nested":
                w, h = b1[1] - b1[0], b1[3] - b1[2]
                b2 = (b1[0] + w / 4, b1[1] - w / 4, b1[2] + h / 4, b1[3] - h / 4)
            else:
                b2 = b1
            s1, s2 = geoms.geom_in_box(rng, t1, *b1), geoms.geom_in_box(rng, t2, *b2)
            for axis in ("temporal", "frequency"):
                mode = rng.choice(["none", "abs", "rel", "both"])
                a = r = None
                if mode == "abs":
                    a = rng.choice([0.0, 0.25, 1.0, 256.0, 1000.0, -0.25, -0.5, -64.0, -2000.0])
                elif mode == "rel":
                    r = rng.choice([0.0, 0.25, 0.5, 1.0])
                elif mode == "both":
                    a, r = 0.5, 0.5
                ctx.case((axis, t1, t2, place, mode), {"kind": axis, "g1": s1, "g2": s2, "abs": a, "rel": r},
                         nontrivial=s1 != s2)
                judge_geoms(ctx, axis, s1, s2, a, r)

    # ---- a geometry against itself / an equal copy: the predicate is the one on its own extent (thresholds larger than
    # the extent, invalid threshold combinations included)
    for t1 in geoms.TYPES:
        for _ in range(ctx.scale(6, 30)):
            s1 = geoms.random_geom(rng, t1, rng.choice(["dyadic", "dyadic", "realistic"]))
            bb = geoms.ref_bounds(s1)
            for axis in ("temporal", "frequency"):
                if axis == "frequency" and t1 in geoms.TIME_ONLY:
                    continue
                ext = (bb[2] - bb[0]) if axis == "temporal" else (bb[3] - bb[1])
                for a, r in [(None, None), (ext / 2, None), (ext, None), (ext * 2 + 1.0, None), (ext + 2.0 ** -20, None), (None, 0.5), (None, 1.0), (0.5, 0.5), (None, 1.5), (None, -0.25)]:
                    same = rng.random() < 0.5
                    ctx.case((axis, t1, t1, "itself" if same else "equal_copy", "abs" if a is not None and r is None else "rel" if r is not None and a is None else "none" if a is None else "both"),
                             {"kind": axis, "g1": s1, "g2": s1, "abs": a, "rel": r, "same_object": same}, nontrivial=False)
                    judge_geoms(ctx, axis, s1, s1, a, r, same_object=same)

    # ---- is_in_clip, directed: a clip of zero duration (a marker) inside an event that extends to both sides of it
    for typ in geoms.TYPES:
        if typ in ("TimeStamp", "Point"):
            continue
        for cs in (0.5, 1.0, 5.0):
            for m in (0, 0.25, 0.5, 2.0):
                gs = geoms.geom_in_box(rng, typ, cs - 0.5, cs + 1.0, 1000.0, 5000.0)
                ctx.case(("in_clip", typ, "zero_duration_clip_inside_event", "zero" if m == 0 else "pos"), {"kind": "in_clip", "g": gs, "clip": [cs, cs], "m": m})
                judge_in_clip(ctx, gs, cs, cs, m)
    # ---- is_in_clip: dyadic grid of placements + random
    qs = [k / 4 for k in range(0, 25)]
    for typ in geoms.TYPES:
        for _ in range(ctx.scale(60, 400)):
            cs = rng.choice(qs[:12] + [-0.5, -0.25, -2.0]); ce = cs + rng.choice(qs[1:12] + [0.0, 0.0])     # (a clip of zero duration is a clip)
            where = rng.choice(["inside", "touch_start", "touch_end", "across_start", "across_end", "before", "after", "cover", "random"])
            L = ce - cs
            if where == "inside":
                a, b = cs + L / 4, ce - L / 4
            elif where == "touch_start":
                a, b = max(cs - 1.0, 0.0), cs
            elif where == "touch_end":
                a, b = ce, ce + 1.0
            elif where == "across_start":
                a, b = max(cs - 0.5, 0.0), cs + L / 2
            elif where == "across_end":
                a, b = cs + L / 2, ce + 0.5
            elif where == "before":
                a, b = max(cs - 2.0, 0.0), max(cs - 1.0, 0.0)
            elif where == "after":
                a, b = ce + 1.0, ce + 2.0
            elif where == "cover":
                a, b = max(cs - 1.0, 0.0), ce + 1.0
            else:
                a = rng.uniform(0, 8); b = a + rng.uniform(0.01, 4)
            a = max(a, 0.0)          # (geometries live at times >= 0; the clip may start before that)
            if not b > a:
                b = a + 0.25
            gs = geoms.geom_in_box(rng, typ, a, b, 1000.0, 5000.0)
            if rng.random() < 0.06:
                gs = {"type": "TimeInterval", "coordinates": [a, a]} if typ in geoms.TIME_ONLY else {"type": "BoundingBox", "coordinates": [a, 1000.0, a, 5000.0]}   # zero-duration event
            m = rng.choice([0, 0, 0.0, 0.25, 0.5, L / 2, L, 3.0, -0.25, -1e-9, rng.uniform(0, 1)])
            ctx.case(("in_clip", typ, where, "neg" if m < 0 else "zero" if m == 0 else "pos"),
                     {"kind": "in_clip", "g": gs, "clip": [cs, ce], "m": m})
            judge_in_clip(ctx, gs, cs, ce, m)


def replay(ctx, w):
    install()
    s = w["spec"]
    ctx.case("replay", s)
    k = s["kind"]
    if k == "intervals":
        judge_intervals(ctx, tuple(s["i1"]), tuple(s["i2"]), s["abs"], s["rel"])
    elif k in ("temporal", "frequency"):
        judge_geoms(ctx, k, s["g1"], s["g2"], s["abs"], s["rel"])
        if s["g1"] == s["g2"]:
            judge_geoms(ctx, k, s["g1"], s["g2"], s["abs"], s["rel"], same_object=True)
    elif k == "in_clip":
        for _ in range(5):          # once per kind of recording the clip may belong to (see _mk_clip)
            judge_in_clip(ctx, s["g"], s["clip"][0], s["clip"][1], s["m"])
