"""pytest plugin: run the repository's own tests with one property's ambient monitors switched on.

  RV_AMBIENT_PROP=C05 RV_AMBIENT_OUT=/path/out.json pytest -p rv.pytest_plugin tests/test_geometry ...

The maintainers' fixtures become a second, independently written workload. Test
pass/fail is ignored by the caller; only monitor events count. Monitors record and
return — they never raise into the code under test.
"""

from __future__ import annotations

import importlib
import json
import os
import sys

_ctx = None


def pytest_configure(config):
    global _ctx
    prop = os.environ.get("RV_AMBIENT_PROP")
    if not prop:
        return
    here = os.path.dirname(os.path.dirname(os.path.abspath(__file__)))
    if here not in sys.path:
        sys.path.insert(0, here)
    from rv.core import deps

    deps.ensure()
    from rv.core import ctx as C
    from rv.core import reach

    _ctx = C.Ctx(prop, "thorough", int(os.environ.get("VERIF_SEED", "0") or 0), shard=999, nshards=1)
    C.CURRENT = _ctx
    mod = importlib.import_module(f"rv.props.{prop.lower()}")
    fn = getattr(mod, "ambient_install", None) or getattr(mod, "install", None)
    if fn is not None:
        fn()
    reach.start()


def pytest_sessionfinish(session, exitstatus):
    if _ctx is None:
        return
    from rv.core import reach

    counts = reach.stop()
    mod = importlib.import_module(f"rv.props.{_ctx.prop.lower()}")
    anchors = tuple(getattr(mod, "ANCHORS", ()))
    for k, v in counts.items():
        if not anchors or k.split("::")[0].startswith(anchors):
            _ctx.reach[k] += v
    d = _ctx.dump()
    d["monitors"] = {f"ambient_pytest.{k}": v for k, v in d["monitors"].items()}
    d["extra"] = {"ambient_pytest_monitor_evaluations": sum(d["monitors"].values())}
    out = os.environ.get("RV_AMBIENT_OUT")
    if out:
        with open(out, "w") as fh:
            json.dump(d, fh, default=repr)
