#!/bin/bash
# usage: tools/sweep.sh <tier> <seed> [props...]  -- prints one line per property plus anything that is not a KNOWN-FINDING
tier=$1; seed=$2; shift 2
props=${@:-C01 C02 C03 C04 C05 C06 C07 C08 C09 C10 C11 C12 C13 C14 C15 C16 C17 C18 C19 C20}
export RV_NO_EVIDENCE=${RV_NO_EVIDENCE-1}
for p in $props; do
  out=$(VERIF_SEED=$seed /venv/bin/python rv/check.py $p --tier $tier 2>&1); rc=$?
  echo "$out" | grep "^\[$p\]" | sed "s/^/rc=$rc /"
  echo "$out" | grep -E "^(VIOLATION|INCONCLUSIVE|  key=)|Traceback|Error" | head -8
done
