#!/usr/bin/env python3
"""Re-run the quick check of each seeded change's property against the change (scratch copy; /repo untouched).

usage: tools/recheck_seeds.py [names...]   -> one line per seed: name, rc (1 = detected), first violation key
"""
import concurrent.futures as cf
import json
import os
import subprocess
import sys

ROOT = "/verif/seeded"


def one(name):
    meta = json.load(open(os.path.join(ROOT, name, "meta.json")))
    prop = meta.get("property") or name.split("-")[0]
    r = subprocess.run(["/venv/bin/python", "/verif/tools/mut.py", "--patch", os.path.join(ROOT, name, "patch.diff"), "--", prop],
                       capture_output=True, text=True, timeout=3600, cwd="/verif")
    out = r.stdout + r.stderr
    rc = next((int(l.split("rc=")[1].split()[0]) for l in out.splitlines() if l.startswith("== ") and "rc=" in l), None)
    key = next((l.strip()[:160] for l in out.splitlines() if l.strip().startswith("key=")), "")
    if UPDATE:
        v = meta.setdefault("verified_by_main_session", {})
        lines = [l for l in out.splitlines() if l.startswith("[" + prop) or l.startswith("VIOLATION") or l.strip().startswith("key=")][:3]
        lines = [l.replace(l.split("replay=")[1], "<scratch>/witness.json") if "replay=" in l else l for l in lines]
        v.setdefault("checks_run", {})[prop] = {"tier": "quick", "rc": rc, "detected": rc == 1, "first_lines": [l[:400] for l in lines]}
        json.dump(meta, open(os.path.join(ROOT, name, "meta.json"), "w"), indent=1)
    return name, rc, key


UPDATE = "--update" in sys.argv


def main():
    names = [a for a in sys.argv[1:] if not a.startswith("--")] or sorted(d for d in os.listdir(ROOT) if os.path.isdir(os.path.join(ROOT, d)))
    missed = []
    with cf.ThreadPoolExecutor(max_workers=12) as ex:
        for name, rc, key in ex.map(one, names):
            print(f"{name} rc={rc} {key}", flush=True)
            if rc != 1:
                missed.append(name)
    print("MISSED:", missed)
    return 1 if missed else 0


if __name__ == "__main__":
    sys.exit(main())
