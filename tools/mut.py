#!/usr/bin/env python3
"""Break-it helper: run checks against a mutated scratch copy of /repo/src.

usage: tools/mut.py [--tier quick] [--patch file.diff | --sub FILE OLD NEW]... -- C12 C05 ...
The scratch copy lives under /tmp and is removed afterwards; /repo is never touched.
"""
import os, shutil, subprocess, sys, tempfile

def main():
    args = sys.argv[1:]
    subs, patches, props, tier = [], [], [], "quick"
    i = 0
    while i < len(args):
        a = args[i]
        if a == "--sub":
            subs.append(tuple(args[i + 1:i + 4])); i += 4
        elif a == "--patch":
            patches.append(args[i + 1]); i += 2
        elif a == "--tier":
            tier = args[i + 1]; i += 2
        elif a == "--":
            props = args[i + 1:]; break
        else:
            props.append(a); i += 1
    tmp = tempfile.mkdtemp(prefix="rvmut-")
    try:
        shutil.copytree("/repo/src", os.path.join(tmp, "src"))
        for f, old, new in subs:
            p = os.path.join(tmp, "src", "soundevent", f)
            s = open(p).read()
            if s.count(old) < 1:
                print(f"MUT-ERROR: pattern not found in {f}: {old!r}"); return 3
            open(p, "w").write(s.replace(old, new, 1))
        for pf in patches:
            r = subprocess.run(["patch", "-p1", "-d", tmp, "-i", os.path.abspath(pf)], capture_output=True, text=True)
            if r.returncode:
                print("MUT-ERROR: patch failed", r.stdout, r.stderr); return 3
        env = dict(os.environ, RV_REPO_SRC=os.path.join(tmp, "src"), RV_NO_EVIDENCE="1",
                   RV_WITNESS_DIR=os.path.join(tmp, "witness"), PYTHONDONTWRITEBYTECODE="1")
        worst = 0
        for prop in props:
            r = subprocess.run(["/venv/bin/python", "/verif/rv/check.py", prop, "--tier", tier], env=env, capture_output=True, text=True)
            out = [l for l in r.stdout.splitlines() if l.startswith(("VIOLATION", "  key=", "INCONCLUSIVE", "KNOWN", "["))]
            print(f"== {prop} rc={r.returncode}")
            print("\n".join(out[:12]))
            if r.returncode not in (0, 1):
                print(r.stdout[-1500:], r.stderr[-1500:])
            worst = max(worst, r.returncode)
        return 0
    finally:
        shutil.rmtree(tmp, ignore_errors=True)

sys.exit(main())
