#!/usr/bin/env python3
"""Write the sub-agent prompts of a seeded round: /tmp/seedprompts/<Cxx>-r<N>.txt

usage: tools/mkprompts.py <round> [plain|hard]
Each prompt contains only the property text (from properties.jsonl), one-line summaries of the changes already taken
for that property (so that a different one is chosen) and the location of the agent's own scratch worktree.
"""
import json, os, sys

rnd = int(sys.argv[1]); mode = sys.argv[2] if len(sys.argv) > 2 else "plain"
props = {json.loads(l)["id"]: json.loads(l) for l in open("/verif/properties.jsonl")}
os.makedirs("/tmp/seedprompts", exist_ok=True)
HARD = ("MAKE IT HARD TO CATCH: assume the project already has a strong randomised, stateful test harness for this property (thousands of random inputs of every type, boundary values, "
        "repeated calls on the same objects, inputs and returned values edited in place between calls, copies / pickles / tuples instead of lists, interleaved generators, "
        "identifier and value coincidences, NaN data, unusual path spellings). Your regression should be one that such a harness could plausibly STILL miss, while still being a realistic bug "
        "that breaks the stated property for legitimate inputs and keeps the whole existing suite green.\n\n")
for pid, p in sorted(props.items()):
    wt = f"/tmp/seed{rnd}-{pid}"
    taken = []
    for d in sorted(os.listdir("/verif/seeded")):
        if d.startswith(pid + "-"):
            m = json.load(open(f"/verif/seeded/{d}/meta.json"))
            taken.append("  - " + m.get("summary", "").replace("\n", " ")[:600])
    files = ", ".join(p["anchors"]["files"])
    txt = f"""You are helping to evaluate a verification harness for the open-source Python library `soundevent` (bioacoustics data schemas, geometry ops, evaluation metrics, AOEF JSON I/O, crowsetta converters, xarray/audio helpers). Your job is to play the role of a developer who introduces a subtle REGRESSION.

You have your own scratch git worktree of the library at {wt} (library source under {wt}/src/soundevent, tests under {wt}/tests). Work ONLY inside {wt}. Do NOT read, list or modify anything under /repo or /verif (they are off limits), and do not touch other /tmp/seed* directories.

How to run things against YOUR worktree (the interpreter /venv/bin/python has all dependencies; PYTHONPATH makes it import your copy):
  cd {wt} && PYTHONPATH={wt}/src /venv/bin/python -m pytest -q -p no:cacheprovider --timeout=900 tests
  cd {wt} && PYTHONPATH={wt}/src /venv/bin/python your_script.py
Four tests fail on the untouched tree for environmental reasons and must be ignored: tests/test_audio/test_audio.py::test_read_clip (flaky deadline), tests/test_audio/test_audio.py::test_can_load_clip_from_24_bit_depth_wav, tests/test_audio/test_io.py::test_audio_to_bytes, tests/test_audio/test_media_info.py::test_can_read_media_info. There is no network.

THE PROPERTY (this is all you are told; it is a semantic property users rely on):
  id: {pid}
  title: {p['title']}
  statement: {p['statement']}
  quantified over: {p['quantifier']['text']}
  source files it is anchored in: {files}

ALREADY TAKEN (other developers already introduced the following regressions for this property; yours must be DIFFERENT from all of them — a different clause of the property, a different code site or a different mechanism; do not re-use one or a trivial variant. Prefer a clause of the statement that none of them touches, or a source file / function from the anchor list that none of them touches):
{chr(10).join(taken)}

{HARD if mode == 'hard' else ''}YOUR TASK
1. Read the relevant source. Make ONE realistic change to the library source (under {wt}/src/soundevent only — do not edit tests) that BREAKS this property, while the code still imports and the ENTIRE existing test suite still passes exactly as before (same 4 environmental failures, nothing new).
2. The change must be the kind of bug a real refactoring / optimisation / "small cleanup" / well-meant "fix" could introduce, and it must need something SPECIFIC to manifest — e.g. an unusual but legitimate input (boundary value, a particular geometry type, a particular option combination, a shared/duplicated object, empty list, non-square shape, non-integer ratio...), a multi-step sequence of operations, or two cooperating code sites that each look fine alone. It must NOT be something that the most basic call would expose at once, and it must not be a blatant sabotage (no random behaviour, no environment checks, no "if x == 12345" special-casing of magic values).
3. Write a demonstration: {wt}/seed/demo_test.py, a self-contained pytest file (or plain script exiting non-zero on failure) that FAILS with your change and PASSES on the untouched tree. Verify both directions yourself (do NOT use git stash — the stash is shared between worktrees; instead remove your change with `git diff -- src > /tmp/myflip-{pid}-r{rnd}.diff && git apply -R /tmp/myflip-{pid}-r{rnd}.diff` and put it back with `git apply /tmp/myflip-{pid}-r{rnd}.diff`).
4. Save the change as a unified diff: cd {wt} && git diff -- src > {wt}/seed/patch.diff   (only files under src/).
5. Write {wt}/seed/meta.json with keys: "property" ("{pid}"), "summary" (one sentence: what you changed), "needs_to_manifest" (what specific input/sequence/option exposes it), "why_tests_miss_it" (one sentence), "commands_run" (list of the commands you ran and their outcomes: full test suite with change, demo with change, demo without change).
6. Leave the worktree with your change APPLIED (not stashed) when you finish.

Final answer: a short report (what you changed, file:line, how it manifests, and confirmation of the three verification runs with their pass/fail counts). Be honest: if you could not find a change that keeps the whole suite green, say so.
"""
    open(f"/tmp/seedprompts/{pid}-r{rnd}.txt", "w").write(txt)
print("wrote", len(props))
