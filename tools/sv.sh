#!/bin/bash
# tools/sv.sh <seed_dir> <name>   -- compact output of seed_verify
python3 /verif/tools/seed_verify.py "$1" "$2" 2>&1 | python3 -c "
import json,sys
t=sys.stdin.read()
try:
    d=json.loads(t[t.index('{'):])
except Exception:
    print(t[-800:]); sys.exit(0)
print('$2','confirmed',d['confirmed'],'missing',d['suite_missing_with_patch'],'demo',d['demo_with_patch_rc'],d['demo_without_patch_rc'])
for k,v in d['checks'].items():
    print('  ',k,'rc',v['rc']); [print('     ',l[:210]) for l in v['lines'][1:3]]
if not d['confirmed']: print(d.get('demo_with_out','')[-400:]); print(d.get('demo_without_out','')[-400:])
"
