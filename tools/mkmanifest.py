#!/usr/bin/env python3
"""Regenerate /verif/MANIFEST.json from the table below (keeps it schema-valid)."""
import json
import os
import subprocess
import sys

ROOT = os.path.dirname(os.path.dirname(os.path.abspath(__file__)))

BASELINE_OFF = (
    "cd /repo && /venv/bin/python -m pytest -ra -q -p no:cacheprovider --timeout=900 "
    "--continue-on-collection-errors --junitxml=/tmp/soundevent-baseline.junit.xml"
)

# appended to every technique: the sequencing / provenance layer of the workloads (DESIGN.md §2.2a)
SEQ = ("; stateful workloads: repeated calls on the same objects, inputs and returned values edited in place between calls, "
       "varied construction paths and containers, interleaved calls, the same calls in flight together on a thread pool vs alone (DESIGN.md §2.2a)")
EXTRA = {
    "C06": "; areal pairs on a shared lattice judged by an exact cell-counting IoU reference",
    "C15": "; lossless FLAC / AIFF / W64 / CAF / AU / 24-, 32-bit and float WAV files judged against a whole-file decode",
    "C17": "; data content NaN / inf / equal to the fill value, samples located by coordinate",
    "C12": "; exact near misses of a threshold by 2**-k decided without a band",
    "C07": "; two live result streams consumed in lockstep",
    "C14": "; two live result streams consumed in lockstep",
    "C18": "; the same parsed document and the same collection converted again with other directories",
    "C19": "; nearest-neighbour (ulp, case, whitespace, unicode form) variants of every leaf for equality / hash coherence",
}

# id -> (technique, level text, level note, design_ref)
CHECKS = {
    "C12": (
        "icontract postconditions on the four predicates + exact Fraction interval model; exhaustive dyadic grid, random floats with ulp band, swap / threshold re-invocations",
        "Every return of intervals_overlap / have_temporal_overlap / have_frequency_overlap / is_in_clip observed in the run is compared with an exact rational model; symmetry and threshold monotonicity are observed by re-invoking the real function. Held on the executions listed in the evidence, nothing more.",
        "Trusts CPython Fraction arithmetic, icontract dispatch and the independent coordinate flatten used for extents; cases within 1e-12 of a boundary on non-dyadic inputs are not judged.",
        "DESIGN.md §4 C12",
    ),
}

CHECKS.update({
    "C13": (
        "offline checker over the recorded call log of the user comparison callback + union-find reference model on the returned sequences; all labelled graphs on <= 5 (quick) / <= 6 (thorough) nodes exhaustively, random graphs to 60 nodes",
        "Every call of the comparison function made by group_sound_events is logged at the callback boundary and checked (distinct input events only); the returned sequences are checked to be the connected components in input order. Exhaustive for the small-graph sub-space, sampled beyond.",
        "Trusts the 15-line union-find model; events are identified by object identity.",
        "DESIGN.md §4 C13",
    ),
    "C14": (
        "wrapper materialising the segment_clip stream + exact Fraction lattice model; exhaustive dyadic parameter grid, random decimal parameters with ulp band, id determinism by re-invocation",
        "Every materialised stream of segment_clip is compared with an exact rational model of the hop lattice (count, starts, durations, truncation, coverage, ids); decided exactly on the dyadic grid.",
        "Trusts Fraction arithmetic; on non-dyadic inputs a window boundary within 1e-12 (relative) of the clip end is not judged.",
        "DESIGN.md §4 C14",
    ),
    "C16": (
        "icontract postconditions on create_range_dim and get_coord_index, snapshot wrapper on set_value_at_pos; independent searchsorted / Fraction count model",
        "Every range created and every coordinate lookup / cell write observed is checked against the stated bin rule and an element-wise before/after comparison of the array.",
        "Trusts numpy searchsorted and array comparison; float64 axes only; non-whole quotients accept floor or ceil counts; clamp above accepts n-1 or n.",
        "DESIGN.md §4 C16",
    ),
    "C17": (
        "unique-valued arrays (every sample identifies its origin) + reference lattice model for crop_dim / extend_dim / *_dim_width, icontract postcondition on the width functions (ambient)",
        "Each result is checked sample-by-sample: kept set, original samples on original coordinates, fill elsewhere, regular axis, exact width and placement.",
        "Coordinates within 2e-5 of an open end (the functions' own epsilon) are not judged; regular float64 axes.",
        "DESIGN.md §4 C17",
    ),
})

CHECKS.update({
    "C03": (
        "construction attempts recorded at the four entry points (constructor, dict, attributes, JSON) judged by a table-driven reference validity predicate and normal form; exhaustive grid of minimal shapes, mutation operators on valid bases; normal-form walker over returned instances",
        "accept <=> reference predicate, identical outcome on all four paths, rejection type, class/tag agreement, normal form and JSON re-validation, on every attempted structure.",
        "Numeric (int/float, finite) coordinate structures only; trusts the 40-line reference predicate written from the statement.",
        "DESIGN.md §4 C03",
    ),
    "C05": (
        "icontract postconditions on compute_bounds, geometry_to_shapely, compute_geometric_features, get_geometry_point against an independent pure-Python flatten of the coordinates (exact equality)",
        "Every return of the four functions observed in the run agrees exactly with min/max over the flattened coordinates, the stated feature formulas and the stated anchors; centroid / point-on-surface inside the bounds.",
        "Invalid polygons whose holes leave the shell are not judged; shapely used only for validity and coordinate extraction.",
        "DESIGN.md §4 C05",
    ),
    "C06": (
        "icontract postcondition on compute_affinity (range, closed-form box IoU, time-extent IoU, time-disjoint => 0) plus relational re-invocations of the real function (argument swap, self, common time shift); all 81 type pairs x placement x buffer class",
        "Every compute_affinity return in the run satisfies the stated range and closed forms; symmetry, self-affinity and shift invariance observed by re-invocation.",
        "Valid geometries; positive buffers when points/lines take part; buffered extents of points/lines are those of the library's own buffer_geometry; tolerances 1e-9 / 1e-7.",
        "DESIGN.md §4 C06",
    ),
    "C07": (
        "wrapper materialising match_geometries + independent brute-force (subset DP) optimal assignment up to 7x7 and exact re-invocation of compute_affinity per reported pair",
        "Every materialised matching covers each index once, pairs only positive affinities, reports the pair's affinity exactly and attains the brute-force optimum.",
        "Optimality not judged above 7x7; valid geometries.",
        "DESIGN.md §4 C07",
    ),
    "C11": (
        "wrapper on buffer_geometry: C03 validity/normal-form walker on the result, exact closed forms for TimeStamp/TimeInterval/BoundingBox, containment and bounds extension via shapely in buffer-normalised space, monotonicity by re-invocation with larger buffers",
        "Every buffer_geometry return in the run is valid, contains the original, extends the bounds by the requested buffers (clipped), and is exactly the widened interval/box for the closed-form types; three mechanisms are recorded as open known findings.",
        "32-gon round caps (0.5 % band); buffers in (0, 1e-6) excluded; open findings keyed by mechanism predicate (zero buffer on a domain edge, coordinate/buffer >= 1e9, mitre corners).",
        "DESIGN.md §4 C11",
    ),
})

CHECKS.update({
    "C01": (
        "hook on every io.save: fresh io.load + field-wise structural diff over every declared field, then two further save/load cycles checked as exact fixpoints (objects and JSON documents); seeded object-graph generator over shared pools; field-coverage tracker",
        "Every collection saved in the run is re-loaded by a fresh call and compared field by field with the original (terms by label); repeated cycles are exact fixpoints. The run is inconclusive unless every declared field of every reachable class was exercised in a non-default state.",
        "Simple-label terms, distinct feature labels, finite numbers; equality is pydantic/python == per field.",
        "DESIGN.md §4 C01",
    ),
    "C02": (
        "offline checker over the JSON text written by save (stdlib json, explicit reference-position schema + generic uuid backstop + parent order + defined == reachable by an independent graph walk) and an icontract class invariant on DataAdapter's lookup tables",
        "Every document written in the run is closed under reference, has unique ids, lists parents first and defines exactly the reachable objects; the adapter tables stay consistent at every public-method exit.",
        "Reference schema is hand-written from the format; tags identified by (label, value).",
        "DESIGN.md §4 C02",
    ),
    "C18": (
        "hook on every io.save comparing the recording paths in the JSON text with PurePosixPath.relative_to, failure-atomicity check of the target file, and a load under a second directory compared path by path",
        "Every saved document stores paths relative to the audio directory, saving with an outside recording fails without touching the target, and loading maps A/x to B/x for every reachable recording.",
        "Lexical paths without '..' or symlinks.",
        "DESIGN.md §4 C18",
    ),
})

CHECKS.update({
    "C04": (
        "construction attempts recorded at four entry points (constructor, dict, JSON, edited AOEF document through io.load) judged by a reference predicate over arrangement specs; invariant walker over every object graph returned by io.load and by accepted constructions",
        "accept <=> reference predicate on the arrangement, identically on every path; every instance of the constrained classes reachable from loaded / constructed graphs satisfies the invariants.",
        "AOEF path uses edit operators with known effect on the invariants; unknown-id leniency of the loader is respected.",
        "DESIGN.md §4 C04",
    ),
    "C19": (
        "reference projection model for encoder / classification / multilabel / prediction encodings (exhaustive over small vocabularies and tag lists) with out-of-vocabulary deletion as relational re-invocation; a == b => hash(a) == hash(b) and dict/set lookups over object pairs built through different construction paths",
        "Every encoding observed equals the stated projection; every equal pair of the eight hashable classes built via deepcopy / model_copy / constructor rebuild / pickle hashes equally.",
        "Vocabulary tags distinct; repeated predicted tags carry one score; float32 tolerance 1e-6.",
        "DESIGN.md §4 C19",
    ),
    "C20": (
        "reference raster: vertices mapped to bins by an independent searchsorted, cell marked iff its centre lies inside the index-space polygon (shapely), closed form for boxes, overwrite order, fill, dtype, axes; all_touched superset by re-invocation",
        "Every rasterize return in the run has the template's axes and, for areal geometries, exactly the cells the centre rule gives; one mechanism (GDAL line burning with all_touched) is an open known finding.",
        "Cells on the index-space outline or within 1.5 bins of point/line geometries are not judged.",
        "DESIGN.md §4 C20",
    ),
})

CHECKS.update({
    "C08": (
        "oracle over every Evaluation returned by sound_event_detection on spec-generated inputs: clip set, per-event accounting, overlap / affinity by re-invoking compute_affinity, class probability recomputed from the spec's tags, means; C07 monitor ambient on the task's match_geometries calls; C04 invariant walker on the result",
        "Every detection result observed evaluates exactly the common clips, puts every sound event (with or without geometry) in exactly one match, pairs only overlapping geometries and reports affinity / score / means as stated; two mechanisms are open known findings.",
        "Vocabularies >= 2 tags, >= 1 evaluated sound event; dyadic scores; tolerances 1e-9 (affinity, means) and 1e-6 (float32 scores).",
        "DESIGN.md §4 C08",
    ),
    "C09": (
        "numpy-only re-implementation of every metric selected by its term (interval-valued under score ties), truths and scores re-derived from the spec's tags; relational re-invocation with permuted clips; AOEF save/load of the result compared metric by metric",
        "Every metric list observed in the four tasks has distinct terms and values equal to the independent re-computation; scores aggregate as means; permuting clips and an AOEF round trip leave every metric intact.",
        "Undefined metrics (no positive, empty union) and tie-dependent argmax outcomes are not judged beyond their interval; single-tag vocabularies and all-unlabelled detection are open known findings.",
        "DESIGN.md §4 C09",
    ),
})

CHECKS.update({
    "C10": (
        "reference model of the documented label cascades and conversion rules (same single float operation, exact comparison) applied to every observed call of the crowsetta converters: full factorial of label options, imports with seconds / samples and time expansion, exports of all geometry types with cast / raise / ignore flags, element-wise round trips",
        "Every conversion observed reproduces the times, frequencies, labels, order and error policy the documentation states; export after import is exact for recordings without time expansion and value-only labels.",
        "crowsetta's own refusals (onset >= offset, low >= high) are dependency preconditions; three documented-ambiguous option combinations are not judged.",
        "DESIGN.md §4 C10",
    ),
    "C15": (
        "WAV files written by the harness with known integer samples; load_clip / load_recording results compared frame by frame with Fraction-evaluated offsets and counts; icontract postconditions on resample and compute_spectrogram for the axis contract (strictly increasing, source start, every coordinate within one advertised step)",
        "Every array produced in the run carries exactly the file's frames (zero-filled past EOF) at the stated times, and its axes agree with the advertised step.",
        "PCM_16 files; near-integer products on decimal sample rates are don't-care (dyadic rates decide boundaries exactly); time expansion in {1, 10, 0.5}.",
        "DESIGN.md §4 C15",
    ),
})

NOT_YET = {}


def main():
    props = [json.loads(l) for l in open(os.path.join(ROOT, "properties.jsonl"))]
    ids = [p["id"] for p in props]
    src_commits = []
    checks = []
    for pid in ids:
        if pid not in CHECKS:
            continue
        tech, text, note, ref = CHECKS[pid]
        checks.append({
            "property_id": pid,
            "quick_cmd": f"/venv/bin/python rv/check.py {pid} --tier quick",
            "thorough_cmd": f"/venv/bin/python rv/check.py {pid} --tier thorough",
            "evidence_file": f"/verif/evidence/{pid}.json",
            "replay_cmd_template": f"/venv/bin/python rv/check.py {pid} --replay {{path}}",
            "engine": "rv",
            "level_claimed": {"category": "exploration", "text": text, "design_ref": ref},
            "level_note": note,
            "technique": "runtime monitoring: " + tech + EXTRA.get(pid, "") + SEQ,
        })
    na = [
        {"property_id": pid, "reason": NOT_YET.get(pid, "monitor not built yet in this session (planned: see DESIGN.md §4); not claimed until its check exists and is silent on the unchanged tree")}
        for pid in ids if pid not in CHECKS
    ]
    man = {
        "version": 1,
        "setup_cmd": "/venv/bin/python rv/core/deps.py",
        "hooks": {
            "guard": "SOUNDEVENT_VERIF",
            "enable": "no source hooks: monitors are attached from outside at import time by rv/check.py (icontract postconditions, wrappers, sys.monitoring reach probe); /repo is imported from its working tree (editable install)",
            "baseline_off_cmd": BASELINE_OFF,
            "source_commits": src_commits,
            "add_only": True,
        },
        "engines": [{
            "name": "rv", "path": "/verif/rv",
            "serves_properties": [c["property_id"] for c in checks],
            "kind_free_text": "runtime monitors (icontract contracts, reference-model oracles, invariant walkers, offline document checkers) driven by seeded workload generators; three-valued verdicts",
        }],
        "checks": checks,
        "not_applicable": na,
        "notes": "Exit 0 held / 1 violation / 2 inconclusive. VERIF_SEED and VERIF_TIER are honoured. Known findings: /verif/known_findings.json.",
    }
    if not na:
        del man["not_applicable"]
    out = os.path.join(ROOT, "MANIFEST.json")
    with open(out, "w") as fh:
        json.dump(man, fh, indent=1)
        fh.write("\n")
    sys.path.append(os.path.join(ROOT, ".deps"))
    try:
        import jsonschema
        jsonschema.validate(man, json.load(open(os.path.join(ROOT, "rv/core/MANIFEST.schema.json"))))
        print("MANIFEST ok:", len(checks), "checks,", len(na), "not_applicable")
    except ImportError:
        print("MANIFEST written (jsonschema unavailable)")


main()
