#!/usr/bin/env python3
"""Regenerate /verif/seeded/CAMPAIGN.md from the meta.json files."""
import json, os
rows = []
for n in sorted(os.listdir("/verif/seeded")):
    p = f"/verif/seeded/{n}/meta.json"
    if not os.path.exists(p):
        continue
    m = json.load(open(p)); v = m.get("verified_by_main_session", {})
    det = ", ".join(f"{k}: {'caught' if c['detected'] else 'missed'}" for k, c in v.get("checks_run", {}).items())
    keys = [l.strip().split(" sub=")[0].replace("key=", "") for c in v.get("checks_run", {}).values() for l in c["first_lines"] if "key=" in l][:1]
    hist = v.get("history", "")
    rows.append(f"| {n} | {m.get('summary','')[:170].replace('|','/')} | {m.get('needs_to_manifest','')[:170].replace('|','/')} | {det} | {'; '.join(keys)} | {hist[:260].replace('|','/')} |")
head = ("# Seeded-change campaign (sub-agents, independent of /verif)\n\n"
        "Each row: a change written by a fresh sub-agent that was given only the property text (round 2 onwards: plus one-line summaries of the changes already taken for that property, so that it picks a different one) and a scratch git worktree of /repo; "
        "confirmed by tools/seed_verify.py (all 1030 baseline tests still pass with the patch; the demonstration fails with it and passes without it); "
        "then the property's quick check was run against the patched scratch copy (RV_REPO_SRC). The 'detected' column is the result of the *final* version of the checks; "
        "'history' says when an earlier version missed the change and what was widened.\n\n"
        "| seed | change | needs to manifest | detected (quick tier, final checks) | first violation key | history |\n|---|---|---|---|---|---|\n")
open("/verif/seeded/CAMPAIGN.md", "w").write(head + "\n".join(rows) + "\n")
print(len(rows), "seeds")
