#!/usr/bin/env python3
"""Run the repository's pinned test command (hooks off) and compare with BASELINE.json stable_pass."""
import json, os, subprocess, sys, tempfile, xml.etree.ElementTree as ET
out = tempfile.mktemp(suffix=".junit.xml")
env = {k: v for k, v in os.environ.items() if not k.startswith(("RV_", "SOUNDEVENT_VERIF"))}
r = subprocess.run(["/venv/bin/python", "-m", "pytest", "-ra", "-q", "-p", "no:cacheprovider", "--timeout=900",
                    "--continue-on-collection-errors", f"--junitxml={out}"], cwd="/repo", env=env, capture_output=True, text=True)
passed = set()
for tc in ET.parse(out).getroot().iter("testcase"):
    if not any(ch.tag in ("failure", "error", "skipped") for ch in tc):
        passed.add(f"{tc.get('classname')}::{tc.get('name')}")
os.remove(out)
base = set(json.load(open("/root/.vp/BASELINE.json"))["stable_pass"])
missing = sorted(base - passed)
print(f"baseline stable_pass={len(base)} passed_now={len(passed)} missing={len(missing)}")
for m in missing[:20]:
    print("  MISSING", m)
print(r.stdout.strip().splitlines()[-1])
sys.exit(1 if missing else 0)
