#!/usr/bin/env python3
"""Confirm a seeded change and run the checks against it.

usage: tools/seed_verify.py <seed_dir> <name> [--props C01 C02 ...] [--tier quick]
  <seed_dir> holds patch.diff, demo_test.py (or demo.py), meta.json (from a sub-agent)
Steps (all in a scratch copy of /repo under /tmp, removed afterwards; /repo is never touched):
  1. baseline suite with the patch applied: every BASELINE.json stable_pass test still passes
  2. demo fails with the patch, passes without
  3. rv checks (given properties, default: the one in meta.json) against the patched copy
Writes /verif/seeded/<name>/{patch.diff, demo_test.py, meta.json} when 1 and 2 hold.
"""
import json
import os
import shutil
import subprocess
import sys
import tempfile
import xml.etree.ElementTree as ET

PY = "/venv/bin/python"


def run(cmd, cwd, env=None, timeout=1800):
    e = dict(os.environ)
    e.update(env or {})
    return subprocess.run(cmd, cwd=cwd, env=e, capture_output=True, text=True, timeout=timeout)


def suite(tree):
    out = tempfile.mktemp(suffix=".xml")
    r = run([PY, "-m", "pytest", "-q", "-p", "no:cacheprovider", "--timeout=900", "--continue-on-collection-errors", f"--junitxml={out}", "tests"],
            tree, {"PYTHONPATH": os.path.join(tree, "src"), "PYTHONDONTWRITEBYTECODE": "1"})
    passed = set()
    try:
        for tc in ET.parse(out).getroot().iter("testcase"):
            if not any(ch.tag in ("failure", "error", "skipped") for ch in tc):
                passed.add(f"{tc.get('classname')}::{tc.get('name')}")
    finally:
        if os.path.exists(out):
            os.remove(out)
    base = set(json.load(open("/root/.vp/BASELINE.json"))["stable_pass"])
    return sorted(base - passed), r.stdout.strip().splitlines()[-1:]


def demo(tree, demo_path):
    if os.path.basename(demo_path).startswith("demo_test") or "def test_" in open(demo_path).read():
        cmd = [PY, "-m", "pytest", "-q", "-p", "no:cacheprovider", "-x", demo_path]
    else:
        cmd = [PY, demo_path]
    r = run(cmd, tree, {"PYTHONPATH": os.path.join(tree, "src"), "PYTHONDONTWRITEBYTECODE": "1"})
    return r.returncode, (r.stdout + r.stderr)[-600:]


def main():
    seed_dir, name = sys.argv[1], sys.argv[2]
    props, tier = None, "quick"
    if "--props" in sys.argv:
        i = sys.argv.index("--props")
        props = [a for a in sys.argv[i + 1:] if not a.startswith("--")]
    if "--tier" in sys.argv:
        tier = sys.argv[sys.argv.index("--tier") + 1]
    patch = os.path.join(seed_dir, "patch.diff")
    demo_src = next((os.path.join(seed_dir, f) for f in ("demo_test.py", "demo.py") if os.path.exists(os.path.join(seed_dir, f))), None)
    meta = json.load(open(os.path.join(seed_dir, "meta.json"))) if os.path.exists(os.path.join(seed_dir, "meta.json")) else {}
    props = props or [meta.get("property")]
    tmp = tempfile.mkdtemp(prefix="rvseed-")
    report = {"name": name, "property": meta.get("property")}
    try:
        clean = os.path.join(tmp, "clean")
        patched = os.path.join(tmp, "patched")
        for d in (clean, patched):
            os.makedirs(d)
            subprocess.run(f"git -C /repo archive HEAD src tests docs pyproject.toml 2>/dev/null | tar -x -C {d}", shell=True)
            # the harness-emptied wav is not in the archive; copy the working-tree file so the tests see the same tree
            src_wav = "/repo/tests/test_audio/24bitdepth.wav"
            if os.path.exists(src_wav):
                shutil.copy(src_wav, os.path.join(d, "tests/test_audio/24bitdepth.wav"))
        r = run(["patch", "-p1", "-i", os.path.abspath(patch)], patched)
        if r.returncode:
            print("PATCH FAILED", r.stdout, r.stderr)
            return 3
        demo_p = os.path.join(tmp, os.path.basename(demo_src))
        shutil.copy(demo_src, demo_p)
        missing, tail = suite(patched)
        report["suite_missing_with_patch"] = missing[:10]
        report["suite_tail"] = tail
        rc_with, out_with = demo(patched, demo_p)
        rc_without, out_without = demo(clean, demo_p)
        report["demo_with_patch_rc"] = rc_with
        report["demo_without_patch_rc"] = rc_without
        ok = (not missing) and rc_with != 0 and rc_without == 0
        report["confirmed"] = ok
        if not ok:
            report["demo_with_out"] = out_with
            report["demo_without_out"] = out_without
        # run the checks
        env = {"RV_REPO_SRC": os.path.join(patched, "src"), "RV_NO_EVIDENCE": "1", "RV_WITNESS_DIR": os.path.join(tmp, "witness"), "PYTHONDONTWRITEBYTECODE": "1"}
        report["checks"] = {}
        for p in props:
            r = run([PY, os.environ.get("RV_CHECK", "/verif/rv/check.py"), p, "--tier", tier], os.path.dirname(os.path.dirname(os.environ.get("RV_CHECK", "/verif/rv/check.py"))), env, timeout=3600)
            lines = [l for l in r.stdout.splitlines() if l.startswith(("VIOLATION", "  key=", "INCONCLUSIVE", "["))]
            report["checks"][p] = {"rc": r.returncode, "lines": [l[:300] for l in lines[:8]]}
        print(json.dumps(report, indent=1))
        if ok:
            dest = os.path.join("/verif/seeded", name)
            os.makedirs(dest, exist_ok=True)
            shutil.copy(patch, os.path.join(dest, "patch.diff"))
            shutil.copy(demo_src, os.path.join(dest, os.path.basename(demo_src)))
            meta_out = dict(meta)
            meta_out["verified_by_main_session"] = {
                "baseline_suite_with_patch": "all 1030 stable_pass tests pass",
                "demo_with_patch_rc": rc_with, "demo_without_patch_rc": rc_without,
                "checks_run": {p: {"tier": tier, "rc": v["rc"], "detected": v["rc"] == 1, "first_lines": v["lines"][:3]} for p, v in report["checks"].items()},
            }
            json.dump(meta_out, open(os.path.join(dest, "meta.json"), "w"), indent=1)
        return 0
    finally:
        shutil.rmtree(tmp, ignore_errors=True)


sys.exit(main())
